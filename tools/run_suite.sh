#!/bin/bash
# Run the repository's own suite (baseline command) and print the summary line.
cd "${1:-/repo}" && /venv/bin/python -m pytest -ra -q -p no:cacheprovider --timeout=900 --continue-on-collection-errors 2>&1 | grep -E "passed|failed|error" | tail -3
