#!/usr/bin/env python3
"""One-off maintenance helper: copy the sub-agents' variants from their
scratch worktrees (/tmp/mut/<ID>/MUTANT/<A|B>) into /verif/seeded/<ID>-<v>/
and write a first meta.json (filled in further by eval_seeded.py)."""
import json, os, re, shutil, sys
VERIF = os.path.dirname(os.path.dirname(os.path.abspath(__file__)))
SRC = sys.argv[1] if len(sys.argv) > 1 else '/tmp/mut'
PROMPT = open(os.path.join(SRC, 'PROMPT.tmpl')).read() \
    if os.path.exists(os.path.join(SRC, 'PROMPT.tmpl')) else ''
for pid in sorted(os.listdir(SRC)):
    d = os.path.join(SRC, pid, 'MUTANT')
    if not os.path.isdir(d):
        continue
    for v in sorted(os.listdir(d)):
        sd = os.path.join(d, v)
        if not os.path.exists(os.path.join(sd, 'patch.diff')):
            continue
        dst = os.path.join(VERIF, 'seeded', '%s-%s' % (pid, v))
        os.makedirs(dst, exist_ok=True)
        for f in ('patch.diff', 'demo.py', 'notes.md'):
            if os.path.exists(os.path.join(sd, f)):
                shutil.copy(os.path.join(sd, f), os.path.join(dst, f))
        notes = open(os.path.join(sd, 'notes.md')).read()
        title = notes.strip().splitlines()[0].lstrip('# ').strip()
        paras = re.split(r'\n\s*\n|\n(?=[-*] )', notes)
        cand = [i for i, p in enumerate(paras)
                if re.search(r'\bneed', p[:60], re.I)] or \
               [i for i, p in enumerate(paras) if re.search(r'\bneed', p, re.I)]
        needs = []
        if cand:
            i = cand[0]
            text = paras[i].strip()
            while text.endswith(':') and i + 1 < len(paras):
                i += 1
                text += ' ' + paras[i].strip()
                while i + 1 < len(paras) and \
                        re.match(r'\s*(\d+\.|[-*]) ', paras[i + 1]):
                    i += 1
                    text += ' ' + paras[i].strip()
            needs = [text]
        files = re.findall(r'^\+\+\+ b/(\S+)', open(
            os.path.join(sd, 'patch.diff')).read(), re.M)
        meta_path = os.path.join(dst, 'meta.json')
        meta = json.load(open(meta_path)) if os.path.exists(meta_path) else {}
        meta.update({
            'id': '%s-%s' % (pid, v),
            'breaks_property': pid,
            'title': title,
            'files_changed': files,
            'needs_to_manifest': ' '.join(needs[0].split()) if needs else '',
            'origin': 'written by a fresh sub-agent that was given only the '
                      'text of property %s and its own scratch git worktree '
                      'of /repo (nothing from /verif); see notes.md for its '
                      'own description' % pid,
        })
        json.dump(meta, open(meta_path, 'w'), indent=1, sort_keys=True)
        print(meta['id'], '|', title[:70], '|', meta['needs_to_manifest'][:80])
