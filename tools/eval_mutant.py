#!/usr/bin/env python3
"""Evaluate one seeded change (maintenance tool; not used by any check).

usage: eval_mutant.py <seed_dir> <PROP> [<other props> ...] [--suite]

<seed_dir> holds patch.diff, demo.py (+ notes.md).  A scratch worktree of
/repo HEAD is created under /tmp/ev, and:
  1. demo.py is run on the pristine worktree      -> must PASS (exit 0)
  2. the patch is applied (git apply)
  3. demo.py is run again                         -> must FAIL (exit != 0)
  4. with --suite the repository's own suite runs -> must stay 596 passed
  5. each listed check runs (quick tier) with VERIF_REPO pointing at the
     patched worktree; VIOLATION lines are collected
  6. the worktree is removed.
Prints a JSON summary on the last line."""
import json
import os
import shutil
import subprocess
import sys
import time

VERIF = os.path.dirname(os.path.dirname(os.path.abspath(__file__)))


def sh(cmd, cwd=None, env=None, timeout=3600):
    p = subprocess.run(cmd, shell=True, cwd=cwd, env=env, timeout=timeout,
                       capture_output=True, text=True)
    return p.returncode, p.stdout + p.stderr


def main():
    args = [a for a in sys.argv[1:] if not a.startswith('--')]
    suite = '--suite' in sys.argv
    tier = 'thorough' if '--thorough' in sys.argv else 'quick'
    seed_dir = os.path.abspath(args[0])
    props = args[1:]
    name = seed_dir.strip('/').replace('/', '_')
    wt = '/tmp/ev/%s_%d' % (name[-40:], os.getpid())
    os.makedirs('/tmp/ev', exist_ok=True)
    out = {'seed': seed_dir, 'props': props}
    rc, o = sh('git -C /repo worktree add -q --detach %s HEAD' % wt)
    assert rc == 0, o
    try:
        dst = os.path.join(wt, 'MUTANT', 'X')
        os.makedirs(dst)
        for f in os.listdir(seed_dir):
            if os.path.isfile(os.path.join(seed_dir, f)):
                shutil.copy(os.path.join(seed_dir, f), dst)
        demo = 'MUTANT/X/demo.py'
        rc, o = sh('/venv/bin/python %s' % demo, cwd=wt, timeout=900)
        out['demo_pristine_rc'] = rc
        out['demo_pristine_tail'] = o[-300:]
        rc, o = sh('git apply MUTANT/X/patch.diff', cwd=wt)
        out['apply_rc'] = rc
        if rc != 0:
            out['apply_err'] = o[-500:]
            print(json.dumps(out))
            return
        rc, o = sh('/venv/bin/python %s' % demo, cwd=wt, timeout=900)
        out['demo_patched_rc'] = rc
        out['demo_patched_tail'] = o[-400:]
        if suite:
            rc, o = sh('/venv/bin/python -m pytest -q -p no:cacheprovider '
                       '--timeout=900 2>&1 | grep -E "passed|failed" | '
                       'tail -1', cwd=wt, timeout=1800)
            out['suite'] = o.strip()
        env = dict(os.environ, VERIF_REPO=wt, VERIF_SCRATCH='/var/tmp',
                   VERIF_OUT=wt + '_out')
        out['checks'] = {}
        for prop in props:
            t0 = time.time()
            rc, o = sh('./vcheck %s --tier %s --no-confirm' % (prop, tier),
                       cwd=VERIF, env=env, timeout=7200)
            viol = [l for l in o.splitlines()
                    if l.startswith('VIOLATION') or 'fingerprint:' in l]
            out['checks'][prop] = {
                'rc': rc, 'seconds': round(time.time() - t0),
                'violations': [v.strip()[:260] for v in viol[:12]],
                'n_violation_lines': sum(1 for l in o.splitlines()
                                         if l.startswith('VIOLATION')),
                'harness': [l for l in o.splitlines()
                            if 'HARNESS' in l or 'Traceback' in l][:3]}
    finally:
        sh('git -C /repo worktree remove --force %s' % wt)
        shutil.rmtree(wt, ignore_errors=True)
        shutil.rmtree(wt + '_out', ignore_errors=True)
    print(json.dumps(out))


if __name__ == '__main__':
    main()
