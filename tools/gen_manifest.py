#!/usr/bin/env python3
"""Generate MANIFEST.json from the table below (kept in one place so the
manifest stays valid while checks are added)."""
import json, os
root = os.path.dirname(os.path.dirname(os.path.abspath(__file__)))
props = [json.loads(l)['id'] for l in open(os.path.join(root, 'properties.jsonl'))]

CHECKS = {
 'C01': dict(level='model_checking', technique='explicit-state BFS over mutation sequences on the real AppMutator + SQLite, differential oracle vs Django-created schema',
   text='Every mutation sequence up to the stated depth over the enabled-mutation alphabet, from every start spec of families S1/S2/S3, is executed through the real AppMutator/SQLExecutor against in-memory SQLite with a DatabaseState scanned from the real database; after every transition the introspected schema must equal the schema Django itself creates for the reference-evolved models. Hinted programs: for every depth-1 successor, every two-step successor whose second step goes to another model, and every field moved between two models, the evolution hinted by Diff is executed as ONE batch and judged the same way (a batch whose result misses the target although the same mutations applied one at a time reach it is a violation). Exhaustive within the bounds; right level because the property is universally quantified over programs.',
   note='Trusts Django 4.2 schema editor as "created from scratch", SQLite PRAGMA introspection, and the reference semantics only as far as the per-step signature agreement check forces it. Names of indexes/constraints and column order are not compared. Children of violating transitions are not expanded.',
   design='3/C01'),
 'C02': dict(level='model_checking', technique='explicit-state BFS over mutation sequences on populated databases; reference row semantics checked after every transition',
   text='The C01 state space with start states populated by row profiles R2 and R6 (NULLs, empty strings, quotes, percent signs, unicode, boundary numbers, FK and M2M links); after every accepted transition the row dump must equal the reference row semantics (surviving values unchanged across renames/rebuilds, new columns hold the declared initial, null->not-null replaces exactly the NULLs).',
   note='Row contents are fixed profiles, not an enumerated space. Expected stored form of an initial is what Django stores for the field type. Batched multi-mutation evolutions are covered by C03 (batched rows == stepwise rows) composed with this single-step oracle.',
   design='3/C02'),
 'C03': dict(level='model_checking', technique='exhaustive path enumeration (stateless, no dedup) over mutation sequences; each path run 4-5 ways on the real AppMutator/Evolver; violating paths delta-minimised',
   text='Every reference-valid mutation sequence up to length 3 (quick) / 4 (thorough) over the narrow alphabet, length 2/3 over the full two-model, three-field and indexed (unique/db_index present from the start) alphabets, every two-step path over a start whose column names differ from the field names also with an SQL barrier before its last step, relation + rename chains of length 3, and length 4 (quick) / 5 (thorough) over a tiny alphabet in which freed field names are re-used, is executed stepwise (reference), batched through one AppMutator, batched again with the same objects, and through the real Evolver task pipeline (prepare then _build_batches); final signature (Diff-empty both ways), schema dump and row dump must agree and the mutation definitions must be unaltered.',
   note='Stepwise execution (W1) defines the outcome; paths whose W1 run fails or differs from a fresh creation are outside the domain (C01). Random length-12 sequences of the property text are sampling and are not done.',
   design='3/C03'),
 'C10': dict(level='model_checking', technique='exhaustive enumeration of hand-over configurations (evolutions x on-disk migration chain x mark_applied prefix x start state x neighbour x driver) through the real Evolver/commands, order observed from signals',
   text='Generated app with k evolutions followed by MoveToDjangoMigrations(mark_applied=S) and a real on-disk chain of m migrations, S every prefix, start states {empty database, database at V0, at each earlier evolution}, alone and next to an evolution-only app, with the app label equal to or different from its package name, on the default and on the second database (the other one must stay byte-identical), through D2/D3/D4: evolution SQL must precede the app migrations, marked migrations are recorded once and not executed, the rest execute once in dependency order, the stored applied_migrations equal the django_migrations rows, upgrade_method is migrations, schema equals a fresh creation for consistent S, and a further run offers no hint, needs nothing and executes no SQL.',
   note='mark_applied is consistent iff it names the migrations the evolutions cover; under-marked configurations are expected to fail with a duplicate column and are only counted.',
   design='3/C10'),
 'C11': dict(level='model_checking', technique='explicit-state BFS over rename/delete mutation sequences; invariant on the simulated signature and on PRAGMA foreign_key_list/foreign_key_check of the real database',
   text='From every S2/S3 start (cross-model and cross-app FK/O2O/M2M, prefix model names, single-character app label) all sequences up to depth 2 (quick) / 3 (thorough) of RenameModel, RenameAppLabel, RenameField (incl. explicit primary keys), DeleteField, DeleteModel, DeleteApplication, AddField (incl. new FK/M2M); after every transition no relation in the simulated signature may dangle or mention a renamed-away name, and every database foreign key must point at an existing table/column and validate.',
   note='Crashes/SQL errors of a transition are C01 business. Rows (R2) are present so foreign_key_check is meaningful.',
   design='3/C11'),
 'C12': dict(level='exploration', technique='exhaustive perturbation enumeration (every operator x every position of every generated evolution) through the real evolve command, judged by the reference semantics',
   text='Every reference-valid evolution of the stated alphabets/depths is perturbed by every operator (drop, duplicate, swap, model/field name missing or other, attribute value, remove initial, re-target, add existing field, delete primary key, delete and re-add an explicit primary key) at every position, installed as a real evolution module and run through `evolve --execute --noinput`; a non-equivalent or reference-invalid evolution (missing model/field, existing field added, primary key deleted, needed initial value dropped) must be rejected with a CommandError carrying an evolution error, no effect statement may be issued and schema, rows, recorded evolutions and stored signature must be unchanged.',
   note='Equivalence of a perturbed evolution is decided by the reference semantics (field/model order ignored), never by the implementation.',
   design='3/C12'),
 'C13': dict(level='exploration', technique='exhaustive enumeration of hinted evolutions (C05 pair space through the real evolve --hint pipeline, plus constructed mutations over the value grammar); render -> exec -> compare',
   text='Every hinted evolution text produced by Evolver(hinted=True)/get_evolution_content() for the C05 pair space and for constructed mutations over the value grammar (Q trees with literal, F() and Value() operands, expressions, every Index/constraint option) is exec-ed in a fresh namespace like an evolution module; the loaded MUTATIONS must equal the hinted ones (str), simulate to the same signature and generate the same SQL; texts with a user-input placeholder must carry it and refuse to load or run.',
   note='Hints that cannot be computed or applied at all belong to C05/C01.',
   design='3/C13'),
 'C14': dict(level='model_checking', technique='preview-vs-execution differential on every pending upgrade; exhaustive exploration of set-iteration-order choices (controlled scheduler for `set`); finite PYTHONHASHSEED sweep in separate interpreters as capture check',
   text='For every pending upgrade of the generated histories (plus Meta-rich histories with 3-4 together/index entries, histories with raw SQL mutations, and two-app histories in which the first app produces no SQL) the `evolve --sql` text must equal, statement by statement with parameters substituted, what `evolve --execute` issues between applying_evolution and applied_evolution from the same snapshot, and the previewed text, run verbatim by a plain sqlite3 cursor on that snapshot, must leave the same schema and rows as --execute; the name `set` is shadowed in the SQL/hint generating modules by an order-controlled subclass and every single iteration-order deviation (all permutations for sets <= 4; pairs of deviations in thorough) must leave preview and hint text unchanged; the same cases are digested under 4 (quick) / 16 (thorough) hash seeds in separate interpreters.',
   note='Set literals/comprehensions and dict order are only covered by the finite seed sweep; a seed difference that the order exploration cannot explain is listed in the evidence.',
   design='3/C14'),
 'C15': dict(level='exploration', technique='exhaustive enumeration of app-removal configurations through the real evolve --purge command and Evolver API, plus BFS over DeleteModel/DeleteApplication sequences, with table-level non-interference oracle',
   text='Two generated projects (3 and 4 apps with cross-app FK/M2M, self M2M, custom db_table names that are prefixes of each other) x every dependency-closed non-empty subset of apps removed from the installed set x {--purge, no purge} x {evolve command, Evolver.queue_purge_old_apps}: the dropped tables must be exactly the tables owned by the removed apps incl. their M2M tables, every other table must be byte-identical (sqlite_master entries and rows), the stored signature must lose exactly those apps, and without --purge nothing may change; a stale app whose models were all deleted before the purge, and a stale app that was managed by migrations, must still lose their signature entry; plus every DeleteModel/DeleteApplication sequence to depth 2/3 through the bare AppMutator under the C01 oracle.',
   note='Only dependency-closed subsets can be removed from INSTALLED_APPS (Django itself would not start otherwise).',
   design='3/C15'),
 'C16': dict(level='exploration', technique='exhaustive enumeration of router configurations x evolutions x evolve orders on two real SQLite databases through Evolver(database_name=...)',
   text='A three-model app under ALL 8 assignments of its models to the databases default/other (harness router answering allow_migrate and db_for_write), every evolution of an 8-letter alphabet up to length 1 (quick) / 2 (thorough) that names models on both sides, both evolve orders, evolutions discovered the normal way plus one run with in-memory evolutions, a run under a router that sends every model it does not manage to default, a scenario with per-database SQL evolution files and a scenario evolve / flush / evolve again: each database must hold exactly the routed models (schema equal to what Django creates for that subset), its stored signature must list exactly those models, the run must succeed, the evolution must be recorded once in the evolved database, evolving again must be a no-op, and the database not being evolved must be byte-identical before and after.',
   note='Models on different databases are unrelated (no cross-database FKs).',
   design='3/C16'),
 'C17': dict(level='fault_enumeration', technique='acceptor over the interleaved signal/statement log of every fault-free and every faulted run of the C07 enumeration (incl. faults in the bookkeeping statements) plus no-op, two-app, split-batch and migration hand-over runs',
   text='A small acceptor checks every run: evolving at most once and before any change; exactly one of evolved/evolving_failed, evolved only after the version row is saved and after the last change; applying_*/creating_models paired with their counterparts unless the run fails in between; every non-bookkeeping effect statement lies between a pair; nothing is reported as done after the statement that failed; the evolutions a pair names are exactly those whose SQL runs between the pair (split batches, shared labels); _evolve_lock restored. Programs include two brand-new apps created in one batch.',
   note='Deferred index SQL for new models and PRAGMA statements are not attributed to a signal pair; migration signals are exercised by C10.',
   design='3/C17'),
 'C18': dict(level='model_checking', technique='same exhaustive path enumeration as C03; oracle on CREATE TABLE "TEMP_TABLE" counts per table in the statement traces',
   text='On every enumerated path the number of table rebuilds per table in the batched run (one AppMutator, and the Evolver pipeline) is compared with the stepwise run and with the bound of one rebuild per maximal run of consecutive mergeable same-model mutations.',
   note='Rebuilds are recognised as CREATE TABLE "TEMP_TABLE" + RENAME in the connection.execute_wrapper trace; model identity follows RenameModel, ambiguous table-name reuse is skipped and counted.',
   design='3/C18'),
 'C04': dict(level='model_checking', technique='explicit-state exploration of upgrade-run histories (memoised on (code version, canonical database state)) through the real Evolver and the evolve/migrate commands; differential convergence oracle',
   text='For every generated history V0..Vn (n=2 quick, 3 thorough; every evolution in the app SEQUENCE, discovered the normal way) and every start point, the database is installed fresh through the real Evolver and then upgraded along EVERY chain of later versions (direct and stepwise are the extremes); all final states must have the schema of a fresh install, equal rows per start point, exactly the SEQUENCE recorded once, a stored signature with empty Diff against the current models, and a further run must report nothing to do and execute no SQL. Hand-written two-app histories declare cross-app evolution dependencies (AFTER/BEFORE_EVOLUTIONS on a label, an app, at app level), and one shard uses an app whose label differs from its package name.',
   note='Histories whose single steps are not C01-clean are outside the domain and counted. A jump whose batched AppMutator run differs from the stepwise run is left out only when the C03 oracle, run on that very path, explains the divergence by recorded C03 findings alone; any other divergence stays in and is judged here. D3/D4 run on a deterministic stride of the histories, D2 on all.',
   design='3/C04'),
 'C05': dict(level='exploration', technique='exhaustive enumeration of ordered signature pairs over the field/Meta product space; diff -> hint -> simulate closure and eq-vs-diff agreement on the real code',
   text='All ordered pairs of the single-field menu (22 x 22: every tracked attribute alone and combined, type changes, relation re-targeting, field added/removed), of the Meta menu (19 x 19 incl. reordered lists), every S1/S2/S3 start against each depth-1 successor both ways, and representation-only variants; for each pair the hinted evolution is simulated on the old signature and must leave an empty Diff; Diff(s,s)/Diff(s,clone) empty; == agrees with Diff emptiness.',
   note='Placeholders needing user input are replaced by a domain value before simulating; model additions are created by the evolver, not hinted.',
   design='3/C05'),
 'C06': dict(level='exploration', technique='exhaustive enumeration of a bounded signature value grammar through the storage channels (deserialize(serialize()), JSON OrderedDict path, real Version save/reload, v2->v1->v2, and a real pickled version-1 row in django_project_version)',
   text='Every signature of the bounded grammar (Q trees to depth 2/3 with AND/OR/XOR/negation/single-child nesting, F/Value/function/combined expressions, every Index and constraint option, Deferrable enums, special strings, None/False/0, relation targets, upgrade method x applied migrations, tuple vs list Meta) and of every generated model set must come back ==, Diff-empty both ways and byte-identical when re-serialised.',
   note='Equality is ProjectSignature.__eq__; difference is Diff(...).is_empty(ignore_apps=False) both ways.',
   design='3/C06'),
 'C07': dict(level='fault_enumeration', technique='exhaustive fault injection: every generated single-batch evolution x every effect-statement index, on the real Evolver pipeline against SQLite, with snapshot comparison and retry',
   text='Every reference-valid evolution of the stated alphabets and depths (optionally with a brand-new model so that model creation and deferred SQL are part of the run, with a purge of a stale app queued in the same run, and on the second database) is executed through Evolver+EvolveAppTask(+PurgeAppTask); then for EVERY effect statement k of the traced run an OperationalError is injected at k; afterwards schema, rows, recorded evolutions, stored signature and migrations must equal the pre-run state, the error must be an EvolutionExecutionError naming statement k, and a fault-free retry must reach the uninterrupted result.',
   note='Faults are raised from connection.execute_wrapper; statements on the bookkeeping tables, django_content_type and PRAGMA foreign_keys are not fault targets (outside the batch). Retry runs in the same process.',
   design='3/C07'),
 'C08': dict(level='model_checking', technique='explicit-state BFS over upgrade-run event histories on the real Evolver and mark/wipe commands, against a reference bookkeeping model',
   text='Breadth-first search to depth 4 (quick) / 6 (thorough) over events {install code version, upgrade all apps, upgrade one app only, upgrade with purge, upgrade with a fault at the first/last statement, mark-evolution-applied, wipe-evolution} on two-app projects that share evolution labels; after every event the recorded (app,label) rows must equal the reference set without duplicates, new rows must hang on the version saved by that run, nothing is recorded by a failed run, a fresh app executes none of its sequence, and no label executes twice since it was last wiped. Split-batch scenarios (the pending evolutions of one app separated by migration dependencies, two start states) count how often the SQL of each label occurs in the statement trace.',
   note='Executions are counted per label since its last wipe. States reached through a violating event are not expanded.',
   design='3/C08'),
 'C09': dict(level='model_checking', technique='exhaustive enumeration of all digraphs <=N nodes on the real DependencyGraph + exhaustive dependency configurations through the real Evolver',
   text='All labelled digraphs on <=4 (quick) / <=5 (thorough) nodes through the real DependencyGraph.get_ordered, checked against an independent Kahn oracle; plus a four-app project (two apps with pending evolutions, a brand-new app, a migration-managed app with two pending migrations) under every assignment of at most one (quick) / two (thorough) declared dependencies from the menu {AFTER,BEFORE}_{EVOLUTIONS,MIGRATIONS} at evolution and app level, from two start states, through the real Evolver; the execution order is recognised from the executed SQL itself; plus an app handed over to migrations by an evolution that also declares AFTER/BEFORE_MIGRATIONS of its own.',
   note='Independent 15-line Kahn implementation is the trusted oracle.',
   design='3/C09'),
}

def main():
    checks = []
    for pid in props:
        c = CHECKS.get(pid)
        if not c:
            continue
        checks.append({
            'property_id': pid,
            'quick_cmd': './vcheck %s --tier quick' % pid,
            'thorough_cmd': './vcheck %s --tier thorough' % pid,
            'evidence_file': 'evidence/%s.json' % pid,
            'replay_cmd_template': './vcheck %s --replay {path}' % pid,
            'engine': 'vf',
            'level_claimed': {'category': c['level'], 'text': c['text'],
                              'design_ref': 'DESIGN.md section ' + c['design']},
            'level_note': c['note'],
            'technique': c['technique'],
        })
    na = [{'property_id': pid,
           'reason': 'check not built yet in this round (planned: bounded exhaustive exploration, see DESIGN.md section 3); not claimed until its check exists and is silent on the unchanged tree'}
          for pid in props if pid not in CHECKS]
    doc = {
        'version': 1,
        'setup_cmd': 'mkdir -p evidence replays && /venv/bin/python -c "import django, django_evolution"',
        'hooks': {
            'guard': 'DJANGO_EVOLUTION_VERIF',
            'enable': 'none needed: no hooks are compiled into /repo; checks import django_evolution from the /repo working tree (or $VERIF_REPO) and observe through connection.execute_wrapper, public signals and module attributes',
            'baseline_off_cmd': 'cd /repo && /venv/bin/python -m pytest -ra -q -p no:cacheprovider --timeout=900 --continue-on-collection-errors',
            'source_commits': [],
            'add_only': True,
        },
        'engines': [{
            'name': 'vf', 'path': 'vf/',
            'serves_properties': sorted(CHECKS),
            'kind_free_text': 'hand-written explicit-state / stateless explorer in Python driving the real django-evolution code against in-memory SQLite (Engine A: mutation-sequence BFS; Engine B: upgrade-history BFS; fault injector; set-order controller)',
        }],
        'checks': checks,
        'not_applicable': na,
        'notes': 'See DESIGN.md. known_findings.json lists genuine defects that are recorded rather than repaired; checks print KNOWN-FINDING lines for them and exit 0.',
    }
    json.dump(doc, open(os.path.join(root, 'MANIFEST.json'), 'w'), indent=1)
    print('checks:', [c['property_id'] for c in checks], 'n/a:', len(na))

main()
