#!/usr/bin/env python3
"""Maintenance tool (no registered check uses it): evaluate seeded changes.

usage: eval_seeded.py [--suite] [--jobs N] [<seed id> ...]

For each /verif/seeded/<id>/ runs tools/eval_mutant.py (scratch worktree of
/repo HEAD outside /repo and /verif, demonstration on the pristine and on
the patched tree, optionally the repository's own suite, then the quick
tier of the checks listed in CHECKS_FOR against the patched worktree) and
stores the outcome in seeded/<id>/meta.json."""
import json, os, subprocess, sys
from concurrent.futures import ThreadPoolExecutor
VERIF = os.path.dirname(os.path.dirname(os.path.abspath(__file__)))
CHECKS_FOR = {'C01-B': ['C01', 'C03'], 'C02-B': ['C02', 'C03'],
              'C03-B': ['C03', 'C18'], 'C04-A': ['C04', 'C03'],
              'C01-C': ['C01', 'C03'], 'C02-C': ['C02', 'C03'],
              'C08-C': ['C08', 'C09'], 'C11-D': ['C11', 'C03'],
              'C02-E': ['C02', 'C01'], 'C08-F': ['C08', 'C07'],
              'C10-F': ['C10', 'C08'], 'C15-E': ['C15', 'C07'],
              'C03-E': ['C03', 'C01'], 'C14-E': ['C14', 'C01'],
              'C04-E': ['C04', 'C11'], 'C11-E': ['C11', 'C03'],
              'C03-F': ['C03', 'C04'],
              # round 4
              'C02-H': ['C02', 'C03'], 'C05-G': ['C05', 'C04'],
              'C05-H': ['C05', 'C01'], 'C08-G': ['C08', 'C16'],
              'C04-G': ['C04', 'C16'], 'C08-H': ['C08', 'C14'],
              'C09-G': ['C09', 'C16'], 'C09-H': ['C09', 'C04'],
              'C10-H': ['C10', 'C16', 'C17'], 'C03-H': ['C03', 'C17'],
              # round 5
              'C01-I': ['C01', 'C12'], 'C01-J': ['C01', 'C11'],
              'C02-I': ['C02', 'C07'], 'C02-J': ['C02'],
              'C03-I': ['C03', 'C12'], 'C04-I': ['C04', 'C03'],
              'C04-J': ['C04', 'C12'], 'C05-I': ['C05', 'C13'],
              'C05-J': ['C05'], 'C08-I': ['C08', 'C16'],
              'C08-J': ['C08', 'C17'], 'C09-I': ['C09', 'C16'],
              'C09-J': ['C09', 'C17'], 'C11-I': ['C11', 'C15'],
              'C11-J': ['C11'], 'C12-J': ['C12'],
              'C13-I': ['C13', 'C04'], 'C15-I': ['C15', 'C07'],
              'C15-J': ['C15', 'C16'], 'C17-J': ['C17', 'C16'],
              'C18-I': ['C18', 'C09'], 'C18-J': ['C18', 'C09']}


def one(sid, suite):
    sd = os.path.join(VERIF, 'seeded', sid)
    checks = CHECKS_FOR.get(sid, [sid.split('-')[0]])
    if '--no-checks' in sys.argv:
        checks = []
    if '--checks' in sys.argv:
        # explicit list (results are merged into the ones recorded earlier)
        checks = sys.argv[sys.argv.index('--checks') + 1].split(',')
    cmd = ['python3', os.path.join(VERIF, 'tools', 'eval_mutant.py'), sd] + \
        checks + (['--suite'] if suite else [])
    p = subprocess.run(cmd, capture_output=True, text=True)
    try:
        res = json.loads(p.stdout.strip().splitlines()[-1])
    except Exception:
        print(sid, 'ERROR', (p.stdout + p.stderr)[-400:])
        return
    mp = os.path.join(sd, 'meta.json')
    meta = json.load(open(mp))
    if res.get('demo_patched_rc') == 0 and res.get('apply_rc') == 0 and \
            meta.get('confirmed', {}).get('demo_on_patched_worktree_rc'):
        # the change was confirmed earlier but no longer breaks the property
        # on the current tree (a later repair of /repo took its lever away):
        # keep the earlier results, record the fact
        head = subprocess.run(['git', '-C', '/repo', 'log', '-1',
                               '--format=%h'], capture_output=True,
                              text=True).stdout.strip()
        meta['superseded'] = ('on /repo %s the demonstration passes with '
                              'the patch applied: a repair made after this '
                              'variant was confirmed removed what it relied '
                              'on; the results below are from the tree it '
                              'was written against' % head)
        json.dump(meta, open(mp, 'w'), indent=1, sort_keys=True)
        print(sid, 'SUPERSEDED', flush=True)
        return
    conf = meta.setdefault('confirmed', {})
    conf['demo_on_pristine_worktree_rc'] = res.get('demo_pristine_rc')
    conf['demo_on_patched_worktree_rc'] = res.get('demo_patched_rc')
    if res.get('suite'):
        conf['repository_suite_with_patch'] = res['suite']
    out = meta.setdefault('checks', {})
    for k, c in res.get('checks', {}).items():
        fps = [v.split('fingerprint: ', 1)[1] for v in c['violations']
               if 'fingerprint: ' in v]
        out[k] = {'tier': 'quick', 'exit_code': c['rc'],
                  'violation_lines': c['n_violation_lines'],
                  'seconds': c['seconds'], 'first_fingerprints': fps[:6],
                  'harness_errors': c['harness']}
    meta['caught_by'] = sorted(k for k, c in out.items()
                               if c['exit_code'] == 1
                               and c['violation_lines'] > 0
                               and c.get('first_fingerprints'))
    meta['what_was_run'] = [
        'git -C /repo worktree add --detach <scratch> HEAD',
        'python demo.py                       (pristine: exit 0)',
        'git apply patch.diff; python demo.py (patched: exit != 0)',
        'python -m pytest -q                  (patched: 596 passed)',
        'VERIF_REPO=<scratch> ./vcheck <ID> --tier quick --no-confirm',
        'git -C /repo worktree remove --force <scratch>']
    json.dump(meta, open(mp, 'w'), indent=1, sort_keys=True)
    print(sid, conf, {k: (c['exit_code'], c['violation_lines'])
                      for k, c in out.items()}, flush=True)


def main():
    args = [a for a in sys.argv[1:] if not a.startswith('--')]
    if '--checks' in sys.argv:
        args.remove(sys.argv[sys.argv.index('--checks') + 1])
    suite = '--suite' in sys.argv
    jobs = 3
    if '--jobs' in sys.argv:
        jobs = int(sys.argv[sys.argv.index('--jobs') + 1])
        args = [a for a in args if a != str(jobs)]
    ids = args or sorted(os.listdir(os.path.join(VERIF, 'seeded')))
    with ThreadPoolExecutor(jobs) as ex:
        list(ex.map(lambda s: one(s, suite), ids))


if __name__ == '__main__':
    main()
