#!/usr/bin/env python3
"""Maintenance helper: regenerate the table of DESIGN.md section 14 from
seeded/*/meta.json (between the SEED-TABLE markers)."""
import json, os, re
VERIF = os.path.dirname(os.path.dirname(os.path.abspath(__file__)))
rows = []
for sid in sorted(os.listdir(os.path.join(VERIF, 'seeded'))):
    mp = os.path.join(VERIF, 'seeded', sid, 'meta.json')
    if not os.path.exists(mp):
        continue
    m = json.load(open(mp))
    title = re.sub(r'^(C\d\d )?[Vv]ariant [A-Z]\s*[-:]+\s*', '', m['title'])
    title = title.replace('|', '/')
    caught = []
    for k in m.get('caught_by', []):
        fps = m['checks'][k]['first_fingerprints']
        fp = fps[0] if fps else ''
        fp = re.sub(r' \(\d+ cases\)$', '', fp).replace('|', ' / ')
        caught.append('**%s** `%s`' % (k, fp[:110]))
    missed = [k for k, c in m.get('checks', {}).items()
              if k not in m.get('caught_by', [])]
    cell = '; '.join(caught) or 'NOT CAUGHT'
    if missed:
        cell += ' (silent: %s)' % ', '.join(sorted(missed))
    conf = m.get('confirmed', {})
    okc = (conf.get('demo_on_pristine_worktree_rc') == 0 and
           conf.get('demo_on_patched_worktree_rc') not in (0, None) and
           str(conf.get('repository_suite_with_patch', '')).startswith(
               '596 passed'))
    if m.get('superseded'):
        cell += ' [no longer a breakage: ' + m['superseded'].split(':')[0] \
            + ']'
    rows.append('| %s | %s (%s) | %s | %s | %s |' % (
        sid, title, ', '.join(os.path.basename(f) for f in
                              m.get('files_changed', [])),
        'yes' if okc else 'NO', cell,
        m.get('history', '').replace('|', '/')))
table = ['| seed | change | demo passes pristine / fails patched / suite 596 | caught by (first fingerprint) | history |',
         '|---|---|---|---|---|'] + rows
p = os.path.join(VERIF, 'DESIGN.md')
s = open(p).read()
b, e = '<!-- SEED-TABLE-BEGIN -->', '<!-- SEED-TABLE-END -->'
if b in s:
    s = s[:s.index(b) + len(b)] + '\n' + '\n'.join(table) + '\n' + \
        s[s.index(e):]
    open(p, 'w').write(s)
print('\n'.join(table)[:3000])
