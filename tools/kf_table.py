#!/usr/bin/env python3
"""Maintenance helper: regenerate the table of DESIGN.md section 8.2 from
known_findings.json."""
import json, os, re
VERIF = os.path.dirname(os.path.dirname(os.path.abspath(__file__)))
doc = json.load(open(os.path.join(VERIF, 'known_findings.json')))
rows = ['| id | what fails |', '|---|---|']
for f in sorted(doc['findings'], key=lambda f: f['id']):
    if f.get('status', 'known') != 'known':
        continue
    rows.append('| %s | %s |' % (f['id'], f['what_fails'].replace('|', '/')))
p = os.path.join(VERIF, 'DESIGN.md')
s = open(p).read()
a = s.index('| id | what fails |')
b = s.index('## 9. Demonstrating detection')
s = s[:a] + '\n'.join(rows) + '\n\n' + s[b:]
open(p, 'w').write(s)
print(len(rows) - 2, 'known findings listed')
