#!/usr/bin/env python3
"""Maintenance helper: after a fingerprint format change, re-run every
exemplar of known_findings.json and store the fingerprint it produces now
(only if that fingerprint is attributed to the same finding)."""
import json, os, re, subprocess, sys
root = os.path.dirname(os.path.dirname(os.path.abspath(__file__)))
sys.path.insert(0, root)
from vf import findings
doc = json.load(open(os.path.join(root, 'known_findings.json')))
for f in doc['findings']:
    if f.get('status', 'known') != 'known':
        continue
    for ex in f.get('exemplar_replays', []):
        path = os.path.join(root, ex)
        d = json.load(open(path))
        p = subprocess.run([os.path.join(root, 'vcheck'), f['property'],
                            '--replay', path], capture_output=True,
                           text=True, cwd=root)
        if 'REPRODUCED' in p.stdout and 'NOT-REPRODUCED' not in p.stdout:
            continue
        cands = []
        for line in p.stdout.splitlines():
            m = re.search(r'(%s\|[^{\[]*?)(:? [\{\[]|$)' % f['property'],
                          line)
            if m:
                cands.append(m.group(1).rstrip(': ').strip())
            for m in re.finditer(r"'(%s\|[^']*)'" % f['property'], line):
                cands.append(m.group(1))
        hit = [c for c in cands
               if (findings.known_entry(f['property'], c) or {}).get('id')
               == f['id']]
        if hit:
            d['fingerprint'] = hit[0]
            json.dump(d, open(path, 'w'), indent=1, sort_keys=True)
            print('refreshed', f['id'], ex, '->', hit[0][:120])
        else:
            print('STILL STALE', f['id'], ex, cands[:3])
