#!/usr/bin/env python3
"""Maintenance helper: add a pattern-based known finding.
usage: kf_pat.py <property> <what_fails> <exemplar-fingerprint-or-''> <regex> [<regex> ...]"""
import hashlib, json, os, shutil, sys
root = os.path.dirname(os.path.dirname(os.path.abspath(__file__)))
path = os.path.join(root, 'known_findings.json')
doc = json.load(open(path))
prop, what, exemplar = sys.argv[1], sys.argv[2], sys.argv[3]
ent = None
for f in doc['findings']:
    if f['property'] == prop and f['what_fails'] == what:
        ent = f
if ent is None:
    n = 1 + sum(1 for f in doc['findings'] if f['property'] == prop)
    ent = {'property': prop, 'what_fails': what, 'status': 'known',
           'fingerprints': [], 'fingerprint_patterns': [],
           'exemplar_replays': [], 'id': '%s-F%02d' % (prop, n)}
    doc['findings'].append(ent)
ent.setdefault('fingerprint_patterns', [])
for pat in sys.argv[4:]:
    if pat not in ent['fingerprint_patterns']:
        ent['fingerprint_patterns'].append(pat)
if exemplar:
    h = hashlib.sha1(exemplar.encode()).hexdigest()[:10]
    src = os.path.join(root, 'replays', '%s-%s.json' % (prop, h))
    if os.path.exists(src):
        os.makedirs(os.path.join(root, 'replays', 'known'), exist_ok=True)
        ex = 'replays/known/%s-%s.json' % (prop, h)
        shutil.copy(src, os.path.join(root, ex))
        if ex not in ent['exemplar_replays']:
            ent['exemplar_replays'].append(ex)
    else:
        print('no exemplar file for', exemplar)
json.dump(doc, open(path, 'w'), indent=1, sort_keys=True)
print(ent['id'])
