#!/usr/bin/env python3
"""Maintenance helper (never used by checks at run time): add a known-finding
entry (one root cause, several fingerprints) to known_findings.json.

usage: kf_add.py <property> <what_fails> <fingerprint> [<fingerprint> ...]
If an entry with the same what_fails exists the fingerprints are added to it.
The exemplar replay of each fingerprint is copied from replays/ into
replays/known/ if present."""
import hashlib, json, os, shutil, sys
root = os.path.dirname(os.path.dirname(os.path.abspath(__file__)))
path = os.path.join(root, 'known_findings.json')
doc = json.load(open(path)) if os.path.exists(path) else {'findings': [], 'fixed': []}
prop, what = sys.argv[1], sys.argv[2]
ent = None
for f in doc['findings']:
    if f['property'] == prop and f['what_fails'] == what:
        ent = f
if ent is None:
    n = 1 + sum(1 for f in doc['findings'] if f['property'] == prop)
    ent = {'property': prop, 'what_fails': what, 'status': 'known',
           'fingerprints': [], 'exemplar_replays': [],
           'id': '%s-F%02d' % (prop, n)}
    doc['findings'].append(ent)
for fp in sys.argv[3:]:
    if fp in ent['fingerprints']:
        continue
    ent['fingerprints'].append(fp)
    h = hashlib.sha1(fp.encode()).hexdigest()[:10]
    src = os.path.join(root, 'replays', '%s-%s.json' % (prop, h))
    if os.path.exists(src):
        os.makedirs(os.path.join(root, 'replays', 'known'), exist_ok=True)
        ex = 'replays/known/%s-%s.json' % (prop, h)
        shutil.copy(src, os.path.join(root, ex))
        ent['exemplar_replays'].append(ex)
json.dump(doc, open(path, 'w'), indent=1, sort_keys=True)
print(ent['id'], len(ent['fingerprints']), 'fingerprints')
