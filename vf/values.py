"""Bounded value grammar shared by C06 (signature round trip) and C13 (hint
rendering): Q trees, expressions, enums, strings, containers."""
import itertools

STRINGS = ['plain', "it's", 'say "hi"', 'back\\slash', '100%', 'ünï',
           '%s', '',
           # a backslash in front of a character that Python would read as
           # an escape sequence, and a real control character
           'C:\\temp\\new\\readme', 'tab\there']


def q_leaves():
    from django.db.models import Q, F, Value
    return [
        ('Q(leaf)', Q(b__gt=0)),
        ('Q(leaf,str)', Q(a="it's \"q\" %")),
        ('~Q(leaf)', ~Q(b__gt=0)),
        ('Q(two-kwargs)', Q(b__gt=0, a='x')),
        ('Q(isnull)', Q(b__isnull=False)),
        ('Q(in-list)', Q(b__in=[1, 2])),
        ('Q(F-operand)', Q(b__gt=F('c'))),
        ('Q(Value-operand)', Q(a=Value('x'))),
    ]


def q_trees(depth=2):
    """(label, Q) up to the given nesting depth."""
    from django.db.models import Q
    level0 = q_leaves()
    out = list(level0)
    ops = [('&', lambda x, y: x & y), ('|', lambda x, y: x | y)]
    if hasattr(Q, 'XOR'):
        ops.append(('^', lambda x, y: x ^ y))
    level1 = []
    base = level0[:3] + level0[-2:]
    for (ln, lq), (rn, rq) in itertools.product(base, base):
        for on, op in ops:
            level1.append(('(%s %s %s)' % (ln, on, rn), op(lq, rq)))
    for n, q in base:
        level1.append(('Q(%s)' % n, Q(q)))                 # single child
        level1.append(('~Q(%s)' % n, ~Q(q)))
    for n, q in level1[:6]:
        level1.append(('~%s' % n, ~q))
    out += level1
    if depth >= 2:
        level2 = []
        for (ln, lq) in level1[:9] + level1[-4:]:
            for (rn, rq) in base[:2]:
                for on, op in ops:
                    level2.append(('(%s %s %s)' % (ln, on, rn), op(lq, rq)))
                    level2.append(('(%s %s %s)' % (rn, on, ln), op(rq, lq)))
        out += level2
    if depth >= 3:
        level3 = []
        for (ln, lq) in out[len(level0) + len(level1):][:20]:
            for (rn, rq) in level1[:4]:
                for on, op in ops:
                    level3.append(('(%s %s %s)' % (ln, on, rn), op(lq, rq)))
        out += level3
    return out


def expressions():
    from django.db.models import F, Value
    from django.db.models.functions import Lower, Upper
    return [
        ('F', [F('a')]),
        ('F.desc', [F('a').desc()]),
        ('Lower', [Lower('a')]),
        ('Upper(F)', [Upper(F('a'))]),
        ('F+Value', [F('b') + Value(1)]),
        ('F*F', [F('b') * F('b')]),
        ('two-exprs', [Lower('a'), F('b').desc()]),
    ]


def vendor_lower():
    """A database function of a third-party package that happens to be
    called like a Django one (vendorlib.functions.Lower)."""
    import sys
    import types
    from django.db.models import Func
    mod = sys.modules.get('vendorlib.functions')
    if mod is None or not hasattr(mod, 'Lower'):
        if 'vendorlib' not in sys.modules:
            pm = types.ModuleType('vendorlib')
            pm.__path__ = []
            sys.modules['vendorlib'] = pm
        mod = types.ModuleType('vendorlib.functions')
        cls = type('Lower', (Func,), {'__module__': 'vendorlib.functions',
                                      'function': 'TRIM', 'arity': 1})
        mod.Lower = cls
        sys.modules['vendorlib.functions'] = mod
    return mod.Lower


def index_variants(depth=2):
    """(label, models.Index) over every Index option."""
    from django.db import models
    out = []
    out.append(('fields', models.Index(fields=['a'])))
    out.append(('fields+name', models.Index(fields=['a'], name='ix_a')))
    out.append(('fields-desc', models.Index(fields=['a', '-b'],
                                            name='ix_ab')))
    out.append(('db_tablespace', models.Index(fields=['a'], name='ix_ts',
                                              db_tablespace='ts1')))
    out.append(('include', models.Index(fields=['a'], name='ix_inc',
                                        include=['b'])))
    out.append(('opclasses', models.Index(fields=['a'], name='ix_opc',
                                          opclasses=['varchar_pattern_ops'])))
    for n, q in q_trees(depth):
        out.append(('condition:' + n, models.Index(fields=['a'],
                                                    name='ix_c',
                                                    condition=q)))
    for n, ex in expressions():
        out.append(('expressions:' + n, models.Index(*ex, name='ix_e')))
    out.append(('expressions+condition',
                models.Index(expressions()[2][1][0], name='ix_ec',
                             condition=q_leaves()[0][1])))
    # every pair / the full set of optional attributes on one index (their
    # order inside the stored dictionary must not matter)
    opts = [('db_tablespace', 'ts1'), ('include', ['b']),
            ('opclasses', ['varchar_pattern_ops']),
            ('condition', q_leaves()[0][1])]
    for i in range(len(opts)):
        for j in range(i + 1, len(opts)):
            kw = dict([opts[i], opts[j]])
            out.append(('+'.join(sorted(kw)),
                        models.Index(fields=['a'], name='ix_p%d%d' % (i, j),
                                     **kw)))
    out.append(('all-options', models.Index(fields=['a'], name='ix_all',
                                            **dict(opts))))
    return out


def constraint_variants(depth=2):
    from django.db import models
    from django.db.models import Deferrable
    out = []
    for n, q in q_trees(depth):
        out.append(('check:' + n, models.CheckConstraint(check=q,
                                                         name='ck')))
    out.append(('unique', models.UniqueConstraint(fields=['a', 'b'],
                                                  name='uq')))
    out.append(('unique-one', models.UniqueConstraint(fields=['a'],
                                                      name='uq1')))
    for n, q in q_trees(1)[:8]:
        out.append(('unique+condition:' + n,
                    models.UniqueConstraint(fields=['a'], name='uqc',
                                            condition=q)))
    out.append(('unique+deferrable:DEFERRED',
                models.UniqueConstraint(fields=['a'], name='uqd',
                                        deferrable=Deferrable.DEFERRED)))
    out.append(('unique+deferrable:IMMEDIATE',
                models.UniqueConstraint(fields=['a'], name='uqi',
                                        deferrable=Deferrable.IMMEDIATE)))
    out.append(('unique+include', models.UniqueConstraint(
        fields=['a'], name='uqn', include=['b'])))
    out.append(('unique+opclasses', models.UniqueConstraint(
        fields=['a'], name='uqo', opclasses=['varchar_pattern_ops'])))
    for n, ex in expressions()[:4]:
        out.append(('unique+expressions:' + n,
                    models.UniqueConstraint(*ex, name='uqe')))
    copts = [('condition', q_leaves()[0][1]),
             ('deferrable', Deferrable.DEFERRED), ('include', ['b']),
             ('opclasses', ['varchar_pattern_ops'])]
    for i in range(len(copts)):
        for j in range(i + 1, len(copts)):
            kw = dict([copts[i], copts[j]])
            try:
                c = models.UniqueConstraint(fields=['a'],
                                            name='uqp%d%d' % (i, j), **kw)
            except ValueError:
                continue        # Django refuses the combination
            out.append(('unique+' + '+'.join(sorted(kw)), c))
    return out


def field_attr_variants():
    """(label, field class name, attrs) covering None/False/0/'' values,
    strings with special characters, every tracked attribute."""
    out = []
    for s in STRINGS:
        if s:
            out.append(('db_column:%r' % s, 'CharField',
                        {'max_length': 10, 'db_column': s}))
    out += [
        ('null=False-explicit', 'IntegerField', {'null': False}),
        ('null=True', 'IntegerField', {'null': True}),
        ('db_index=False-explicit', 'IntegerField', {'db_index': False}),
        ('unique+db_index', 'IntegerField', {'unique': True,
                                             'db_index': True}),
        ('max_length=0', 'CharField', {'max_length': 0}),
        ('max_length=None-explicit', 'TextField', {'max_length': None}),
        ('decimal', 'DecimalField', {'max_digits': 5, 'decimal_places': 2}),
        ('decimal-zero', 'DecimalField', {'max_digits': 1,
                                          'decimal_places': 0}),
        ('primary_key', 'IntegerField', {'primary_key': True}),
        ('db_column=empty', 'IntegerField', {'db_column': ''}),
    ]
    return out
