"""C17 acceptor: are the lifecycle signals of one upgrade run paired and
truthful?  Input: the interleaved log of signals and executed statements
(shared sequence counter) plus the outcome of the run."""
from vf import observe as O

BOOKKEEPING = ('django_project_version', 'django_evolution"',
               'django_evolution ', 'django_migrations', 'django_content_type')


def is_bookkeeping(sql):
    s = sql
    return ('"django_project_version"' in s or '"django_evolution"' in s or
            '"django_migrations"' in s or '"django_content_type"' in s or
            s.upper().startswith('PRAGMA FOREIGN_KEYS'))


def check(events, statements, outcome, lock_before, lock_after,
          saved=None, purge=False, model_tables=None):
    """events: [(seq, name, payload)], statements: [(seq, sql, params,
    fault_marker)], outcome: 'ok' | 'failed'.
    Returns list of (clause, detail)."""
    out = []
    names = [e[1] for e in events]
    eff = [(s, q) for (s, q, p, f) in statements
           if f is None and O.is_effect(q) and not is_bookkeeping(q)]
    n_evolving = names.count('evolving')
    if n_evolving > 1:
        out.append(('evolving-emitted-more-than-once', {'n': n_evolving}))
    if n_evolving:
        seq_ev = [e[0] for e in events if e[1] == 'evolving'][0]
        early = [q for (s, q) in eff if s < seq_ev]
        if early:
            out.append(('change-before-evolving', {'sql': early[:3]}))
        n_done = names.count('evolved') + names.count('evolving_failed')
        if n_done != 1:
            out.append(('evolving-not-followed-by-exactly-one-end',
                        {'evolved': names.count('evolved'),
                         'evolving_failed': names.count('evolving_failed')}))
        if outcome == 'ok' and 'evolved' not in names:
            out.append(('returned-normally-without-evolved', {}))
        if outcome != 'ok' and 'evolved' in names:
            out.append(('evolved-emitted-but-run-failed', {}))
        if outcome != 'ok' and 'evolving_failed' not in names:
            out.append(('failed-without-evolving_failed', {}))
        if 'evolved' in names and saved is False:
            out.append(('evolved-emitted-but-nothing-saved', {}))
        if 'evolved' in names:
            seq_done = [e[0] for e in events if e[1] == 'evolved'][0]
            late = [q for (s_, q, p, f) in statements
                    if s_ > seq_done and O.is_effect(q)]
            if late:
                out.append(('evolved-emitted-before-last-change',
                            {'sql': late[:3]}))
            saves = [q for (s_, q, p, f) in statements
                     if O.is_effect(q) and
                     '"django_project_version"' in q and s_ < seq_done]
            if not saves:
                out.append(('evolved-emitted-before-version-saved', {}))
    else:
        if names:
            out.append(('signals-without-evolving', {'names': names[:5]}))
    # nothing may be reported as done after the statement that failed
    failed_at = [s for (s, q, p, f) in statements if f is not None]
    if failed_at and outcome != 'ok':
        sf = min(failed_at)
        for seq, name, payload in events:
            if seq > sf and name in ('applied_evolution', 'created_models',
                                     'applied_migration', 'evolved'):
                out.append(('%s-emitted-after-the-failing-statement' % name,
                            {'payload': str(payload)[:200]}))
                break
    # pairing
    pairs = (('applying_evolution', 'applied_evolution'),
             ('applying_migration', 'applied_migration'),
             ('creating_models', 'created_models'))
    end_seq = max([e[0] for e in events] + [s for s, _q in eff] + [0]) + 1
    for start, end in pairs:
        open_ = []
        for seq, name, payload in events:
            if name == start:
                open_.append((seq, payload))
            elif name == end:
                # match the oldest open with the same payload key
                key = payload_key(payload)
                m = [o for o in open_ if payload_key(o[1]) == key]
                if not m:
                    out.append(('%s-without-%s' % (end, start),
                                {'payload': payload}))
                else:
                    open_.remove(m[0])
                    # statements between the pair must exist for evolutions
                    if start == 'applying_evolution':
                        between = [q for (s, q) in eff
                                   if m[0][0] < s < seq]
                        if not between:
                            out.append(('applied_evolution-without-sql',
                                        {'payload': payload}))
        if open_ and outcome == 'ok':
            out.append(('%s-never-followed-by-%s' % (start, end),
                        {'payload': open_[0][1]}))
        if len(open_) > 1 and start != 'creating_models':
            # creating_models is sent for every app of a creation batch
            # before the batch's SQL runs, so a fault in that SQL leaves
            # several of them open - which the property allows ("unless the
            # run fails in between"); evolutions and migrations are applied
            # one at a time
            out.append(('several-%s-left-open' % start, {'n': len(open_)}))
    # the models a created_models names are the ones whose table was
    # created since the first creating_models of that creation batch
    # (model_tables: {(app label, model name): table})
    if model_tables:
        first_creating = None
        for seq, name, payload in events:
            if name == 'creating_models' and first_creating is None:
                first_creating = seq
            elif name == 'created_models' and first_creating is not None:
                made = set()
                for (s, q) in eff:
                    if first_creating < s < seq and \
                            q.upper().startswith('CREATE TABLE'):
                        made.add(q.split('"')[1])
                missing = [m for m in (payload.get('model_names') or [])
                           if model_tables.get((payload.get('app_label'), m))
                           not in made]
                if missing:
                    out.append(('created_models-names-a-model-whose-table-'
                                'was-not-created', {'models': missing,
                                                    'app': payload.get(
                                                        'app_label')}))
    # every non-bookkeeping effect statement lies inside some pair
    spans = []
    for start, end in pairs:
        starts = [e for e in events if e[1] == start]
        ends = [e for e in events if e[1] == end]
        for st in starts:
            later = [e[0] for e in ends if e[0] > st[0]]
            spans.append((st[0], min(later) if later else end_seq))
    orphan = []
    for s, q in eff:
        if not any(a < s < b for a, b in spans):
            orphan.append(q)
    # deferred SQL of new models (CREATE INDEX after created_models) and
    # constraint-checking pragmas are not attributed to a signal pair
    orphan = [q for q in orphan if not q.upper().startswith('PRAGMA')
              and not q.upper().startswith('CREATE INDEX')
              and not q.upper().startswith('CREATE UNIQUE INDEX')]
    if purge:
        # purging a stale app has no signal of its own
        orphan = [q for q in orphan if not q.upper().startswith('DROP TABLE')]
    if orphan:
        out.append(('sql-outside-any-signal-pair', {'sql': orphan[:3]}))
    if lock_after != lock_before:
        out.append(('evolve-lock-not-restored', {'before': lock_before,
                                                 'after': lock_after}))
    return out


def payload_key(p):
    return (p.get('app_label'), tuple(p.get('evolutions') or ()),
            tuple(p.get('model_names') or ()), p.get('migration'))
