"""Project-specific field classes (plain subclasses of Django's fields): a
spec field with 'sub': True is built from the subclass, so that signatures
carry a field type that *is a* ManyToManyField / ForeignKey / ... without
being that very class."""
from django.db import models


class XCharField(models.CharField):
    pass


class XIntegerField(models.IntegerField):
    pass


class XForeignKey(models.ForeignKey):
    pass


class XOneToOneField(models.OneToOneField):
    pass


class XManyToManyField(models.ManyToManyField):
    pass


SUB = {models.CharField: XCharField, models.IntegerField: XIntegerField,
       models.ForeignKey: XForeignKey, models.OneToOneField: XOneToOneField,
       models.ManyToManyField: XManyToManyField}
