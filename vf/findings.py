"""Violation records, fingerprints, known-findings matching, replay files."""
import hashlib
import json
import os

VERIF = os.path.dirname(os.path.dirname(os.path.abspath(__file__)))
KNOWN_PATH = os.environ.get('VERIF_KNOWN') or \
    os.path.join(VERIF, 'known_findings.json')
REPLAY_DIR = os.path.join(os.environ.get('VERIF_OUT', VERIF), 'replays')


def load_known():
    if not os.path.exists(KNOWN_PATH):
        return []
    with open(KNOWN_PATH) as fp:
        return json.load(fp)['findings']


_known_cache = {}


def known_entry(prop, fingerprint):
    """The known finding (status 'known') that lists `fingerprint`, or
    None."""
    import re
    ents = _known_cache.get(prop)
    if ents is None:
        ents = []
        for k in load_known():
            if k['property'] == prop and k.get('status', 'known') == 'known':
                ents.append((set(k.get('fingerprints', [])),
                             [re.compile(p) for p in
                              k.get('fingerprint_patterns', [])], k))
        _known_cache[prop] = ents
    for fps, pats, k in ents:
        if fingerprint in fps or any(rx.fullmatch(fingerprint)
                                     for rx in pats):
            return k
    return None


class Collector(object):
    """Collects violations of one property run, grouped by fingerprint."""

    def __init__(self, prop):
        self.prop = prop
        self.by_fp = {}      # fingerprint -> {'count', 'exemplar'}

    def add(self, fingerprint, replay, detail=None, size=None):
        ent = self.by_fp.get(fingerprint)
        if size is None:
            size = len(json.dumps(replay, sort_keys=True, default=str))
        if ent is None:
            self.by_fp[fingerprint] = {'count': 1, 'exemplar': replay,
                                       'detail': detail, 'size': size}
        else:
            ent['count'] += 1
            if size < ent['size']:
                ent.update(exemplar=replay, detail=detail, size=size)

    def merge(self, other_by_fp):
        for fp, ent in other_by_fp.items():
            cur = self.by_fp.get(fp)
            if cur is None:
                self.by_fp[fp] = dict(ent)
            else:
                cur['count'] += ent['count']
                if ent['size'] < cur['size']:
                    cur.update(exemplar=ent['exemplar'],
                               detail=ent['detail'], size=ent['size'])

    def total(self):
        return sum(e['count'] for e in self.by_fp.values())

    def report(self, out=print, confirm=None):
        """Print KNOWN-FINDING / VIOLATION lines.  Returns (exit_code,
        n_unlisted).  `confirm(replay) -> bool` re-executes an exemplar in a
        fresh interpreter (replay guard)."""
        known = [k for k in load_known() if k['property'] == self.prop
                 and k.get('status', 'known') == 'known']
        known_fps = {}
        for k in known:
            for fp in k.get('fingerprints', []):
                known_fps[fp] = k
        import glob
        import re
        for stale in glob.glob(os.path.join(REPLAY_DIR,
                                            '%s-*.json' % self.prop)):
            os.remove(stale)
        patterns = []
        for k in known:
            for pat in k.get('fingerprint_patterns', []):
                patterns.append((re.compile(pat), k))
        unlisted = 0
        seen_known = {}
        nondeterministic = False
        for fp in sorted(self.by_fp):
            ent = self.by_fp[fp]
            if fp not in known_fps:
                for rx, k in patterns:
                    if rx.fullmatch(fp):
                        known_fps[fp] = k
                        break
            if fp in known_fps:
                k = known_fps[fp]
                seen_known.setdefault(k['id'], [k, 0])[1] += ent['count']
                continue
            unlisted += 1
            path = write_replay(self.prop, fp, ent)
            if confirm is not None:
                ok = confirm(path)
                if not ok:
                    nondeterministic = True
                    out('HARNESS-NONDETERMINISM property=%s fingerprint=%s '
                        'replay=%s (not reproduced in a fresh interpreter)'
                        % (self.prop, fp, path))
                    continue
            out('VIOLATION property=%s replay=%s' % (self.prop, path))
            out('  fingerprint: %s (%d cases)' % (fp, ent['count']))
            if ent.get('detail'):
                out('  detail: %s' % json.dumps(ent['detail'],
                                                default=str)[:600])
        for kid in sorted(seen_known):
            k, n = seen_known[kid]
            out('KNOWN-FINDING: property=%s %s [%s; %d cases this run]'
                % (self.prop, k['what_fails'], kid, n))
        if nondeterministic:
            return 2, unlisted
        return (1 if unlisted else 0), unlisted


def write_replay(prop, fp, ent):
    os.makedirs(REPLAY_DIR, exist_ok=True)
    h = hashlib.sha1(fp.encode()).hexdigest()[:10]
    path = os.path.join(REPLAY_DIR, '%s-%s.json' % (prop, h))
    with open(path, 'w') as fp_:
        json.dump({'property': prop, 'fingerprint': fp,
                   'count': ent['count'], 'detail': ent.get('detail'),
                   'replay': ent['exemplar']}, fp_, indent=1, sort_keys=True,
                  default=str)
    return path
