"""Parallel execution of exploration tasks in long-lived worker processes."""
import multiprocessing
import os
import random
import sys
import time
import traceback


def _init():
    from vf import bootstrap
    bootstrap.setup()


def _call(args):
    fn_path, task = args
    mod_name, fn_name = fn_path.rsplit('.', 1)
    import importlib
    mod = importlib.import_module(mod_name)
    try:
        return ('ok', getattr(mod, fn_name)(task))
    except Exception:
        return ('error', traceback.format_exc(), task)


def nproc():
    return int(os.environ.get('VERIF_PROCS', '0')) or \
        min(16, multiprocessing.cpu_count())


def run_tasks(fn_path, tasks, seed=0, progress=None, procs=None,
              maxtasks=None):
    """Run fn_path(task) for every task in a pool; yields results as they
    complete.  A worker exception is a harness error (exit code 2)."""
    tasks = list(tasks)
    random.Random(seed).shuffle(tasks)
    procs = procs or nproc()
    t0 = time.time()
    if procs <= 1 or len(tasks) <= 1:
        _init()
        for i, t in enumerate(tasks):
            r = _call((fn_path, t))
            if r[0] == 'error':
                sys.stderr.write(r[1])
                raise HarnessError('worker failed on task %r' % (r[2],))
            yield r[1]
        return
    ctx = multiprocessing.get_context('fork')
    with ctx.Pool(min(procs, len(tasks)), initializer=_init,
                  maxtasksperchild=maxtasks) as pool:
        n = 0
        for r in pool.imap_unordered(_call, [(fn_path, t) for t in tasks]):
            n += 1
            if r[0] == 'error':
                sys.stderr.write(r[1])
                pool.terminate()
                raise HarnessError('worker failed on task %r' % (r[2],))
            if progress and n % progress == 0:
                print('  ... %d/%d tasks (%.0fs)' % (n, len(tasks),
                                                    time.time() - t0),
                      flush=True)
            yield r[1]


class HarnessError(Exception):
    pass
