"""C17 - lifecycle signals are paired and tell the truth about the run.

The acceptor (vf/acceptor.py) runs over the interleaved signal/statement
log of (a) every fault-free and every faulted run of the C07 enumeration,
(b) runs with nothing to do, (c) multi-app upgrades of C04-style
histories through Evolver.queue_evolve_all_apps()."""
import time

from vf import spec as S, observe as O, bootstrap as B, drivers as D
from vf import materialize as MZ, engine_b as EB, findings, acceptor
from vf import mutlang as ML
from vf.checks import common, c07, c03


def extra_scenarios(coll, stats):
    """Runs with nothing to do, and a two-app upgrade."""
    from vf import bootstrap, starts, mutlang as ML
    from django_evolution import management
    bootstrap.setup()
    # (b) nothing to do
    start = c03.narrow_start()
    img = D.baseline(start, rows='R2')
    MZ.install(start)
    for driver in ('D2', 'D3'):
        B.restore(img, 'default')
        B.reset_globals()
        seq = [0]
        tracer = O.Tracer('default', seq=seq)
        lock = management._evolve_lock
        with O.SignalLog(seq) as log:
            res = EB.upgrade(driver, tracer=tracer)
        stats['extra_runs'] += 1
        if driver == 'D3':
            # the command does not call evolve() when nothing is required
            if log.events or tracer.effects():
                coll.add('C17|noop-command-run-emits-signals-or-sql',
                         {'scenario': 'noop', 'driver': driver},
                         {'events': log.events[:5]})
            continue
        for clause, detail in acceptor.check(
                log.events, tracer.statements,
                'ok' if res.ok else 'failed', lock, management._evolve_lock,
                saved=True):
            coll.add('C17|%s|nothing-to-do|%s' % (clause, driver),
                     {'scenario': 'noop', 'driver': driver}, detail)
    # (c) two apps, one evolution each, all apps at once
    s3a = dict(starts.s3())['S3a']
    hist = EB.History(s3a, [
        ('va', 'e1', [['AddField', 'Author', 'n1', 'Int', {'null': True},
                       None]]),
        ('vab', 'e1', [['AddField', 'Book', 'n1', 'Char',
                        {'max_length': 20}, 'x'],
                       ['ChangeField', 'Book', 'title',
                        {'max_length': 30}, None, None]]),
    ])
    hist.install(0)
    B.fresh_db('default')
    EB.upgrade('D2')
    img0 = B.snapshot('default')
    for fault in [None] + list(range(1, 12)):
        hist.install(2)
        B.restore(img0, 'default')
        B.reset_globals()
        seq = [0]
        tracer = O.Tracer('default', seq=seq, fault_at=fault,
                          match=lambda q: not acceptor.is_bookkeeping(q))
        lock = management._evolve_lock
        with O.SignalLog(seq) as log:
            res = EB.upgrade('D2', tracer=tracer)
        stats['extra_runs'] += 1
        if fault is not None and tracer.faulted is None:
            break
        for clause, detail in acceptor.check(
                log.events, tracer.statements,
                'ok' if res.ok else 'failed', lock, management._evolve_lock,
                saved=res.ok):
            coll.add('C17|%s|two-apps|%s' % (
                clause, 'fault' if fault else 'fault-free'),
                {'scenario': 'two-apps', 'fault_at': fault}, detail)
        # what was announced as applied must be in the database after the
        # run, whether the run as a whole failed or not
        effect_of = {('va', 'e1'): ('va_author', 'n1'),
                     ('vab', 'e1'): ('vab_book', 'n1')}
        for (_s, name, p) in log.events:
            if name != 'applied_evolution':
                continue
            for e in p.get('evolutions', []):
                table, col = effect_of.get(tuple(e), (None, None))
                if table is None:
                    continue
                cols = [c[0] for c in O.table_dump(table, 'default')[
                    'columns']] if table in O.list_tables('default') else []
                if col not in cols:
                    coll.add('C17|announced-as-applied-but-not-in-the-'
                             'database|two-apps|%s' % (
                                 'fault' if fault else 'fault-free'),
                             {'scenario': 'two-apps', 'fault_at': fault},
                             {'evolution': list(e), 'columns': cols})
        # payload truthfulness: labels carried == evolutions of that app
        if res.ok:
            carried = sorted(set(
                e for (_s, name, p) in log.events
                if name == 'applying_evolution'
                for e in p.get('evolutions', [])))
            if carried != [('va', 'e1'), ('vab', 'e1')]:
                coll.add('C17|payload-evolutions-wrong|two-apps',
                         {'scenario': 'two-apps'}, {'carried': carried})


def raw_sql_scenario(coll, stats):
    """Evolutions made of raw SQL (with and without comments inside the
    statements): the pair that names the evolution must enclose SQL that
    really reaches the database, and the rows must show its effect."""
    from django_evolution import management
    start = c03.narrow_start()
    variants = [
        ('plain', ["UPDATE va_item SET b = 41 WHERE b IS NULL;"]),
        ('trailing-comment',
         ["UPDATE va_item SET b = 41 WHERE b IS NULL; -- back-fill"]),
        ('inline-comment',
         ["UPDATE va_item SET b = 41 -- back-fill\n WHERE b IS NULL;"]),
        ('comment-line-first',
         ["-- back-fill", "UPDATE va_item SET b = 41 WHERE b IS NULL;"]),
    ]
    for name, stmts in variants:
        hist = EB.History(start, [('va', 'e1', [['SQLRaw', 'fill',
                                                 stmts]])])
        hist.install(0)
        B.fresh_db('default')
        B.reset_globals()
        r0 = EB.upgrade('D2')
        from vf import rows as RW
        RW.populate(start, 'R2', 'default')
        hist.install(1)
        B.reset_globals()
        seq = [0]
        tracer = O.Tracer('default', seq=seq)
        lock = management._evolve_lock
        with O.SignalLog(seq) as log:
            res = EB.upgrade('D2', tracer=tracer)
        stats['extra_runs'] += 1
        replay = {'scenario': 'raw-sql', 'variant': name}
        if not res.ok:
            coll.add('C17|raw-sql-run-fails|%s|%s' % (res.exc_type, name),
                     replay, {'error': str(res.exc)[:200]})
            continue
        for clause, detail in acceptor.check(
                log.events, tracer.statements, 'ok', lock,
                management._evolve_lock, saved=True):
            coll.add('C17|%s|raw-sql:%s' % (clause, name), replay, detail)
        left = [r for r in O.row_dump('default')['va_item']['rows']
                if any(v == (None, 'null') for v in r)]
        if left:
            coll.add('C17|announced-as-applied-but-not-in-the-database|'
                     'raw-sql:%s' % name, replay, {'rows': str(left)[:200]})


def unmanaged_model_scenario(coll, stats):
    """A brand-new app with an ordinary model and a model that Django does
    not manage (Meta.managed = False), alone and next to a second new app:
    every model a creating_models/created_models pair names must have had
    its table created between the pair."""
    from django_evolution import management
    from vf.spec import F, M, A, P
    base = c03.narrow_start()
    for two in (False, True):
        proj = S.clone(base)
        legacy = M('Legacy', [F('x', 'Char', max_length=20)])
        legacy['meta']['managed'] = False
        proj['apps'].append(A('vn1', [
            M('Fresh', [F('t', 'Char', max_length=20)]), legacy]))
        if two:
            proj['apps'].append(A('vn2', [M('Other', [F('u', 'Int',
                                                        null=True)])]))
        tables = {}
        for app in proj['apps']:
            for m in app['models']:
                tables[(app['label'], m['name'])] = S.table_name(
                    app['label'], m)
        img = D.baseline(base)
        MZ.install(proj)
        B.restore(img, 'default')
        B.reset_globals()
        seq = [0]
        tracer = O.Tracer('default', seq=seq)
        lock = management._evolve_lock
        with O.SignalLog(seq) as log:
            res = D.d2_all(tracer=tracer)
        stats['extra_runs'] += 1
        name = 'two-new-apps' if two else 'one-new-app'
        replay = {'scenario': 'unmanaged-model', 'variant': name}
        if not res.ok:
            coll.add('C17|unmanaged-model-run-fails|%s|%s' % (
                res.exc_type, name), replay, {'error': str(res.exc)[:200]})
            continue
        for clause, detail in acceptor.check(
                log.events, tracer.statements, 'ok', lock,
                management._evolve_lock, saved=True, model_tables=tables):
            coll.add('C17|%s|unmanaged-model:%s' % (clause, name), replay,
                     detail)


def sql_file_scenario(coll, stats):
    """An app whose pending evolutions mix SQL files and Python modules
    (in both orders, generic and database-specific file names): every
    evolution a pair names must have run, and its effect must be in the
    database."""
    from django_evolution import management
    start = c03.narrow_start()
    add_n1 = ML.to_real(['AddField', 'Item', 'n1', 'Int', {'null': True},
                         None])
    chg_a = ML.to_real(['ChangeField', 'Item', 'a', {'max_length': 30},
                        None, None])
    sql = "UPDATE va_item SET b = 41 WHERE b IS NULL;\n"
    variants = [
        ('sql-then-python', ['fill', 'widen'], {'widen': [chg_a]},
         {'fill.sql': sql}),
        ('python-then-sql', ['widen', 'fill'], {'widen': [chg_a]},
         {'fill.sql': sql}),
        ('db-specific-sql-then-python', ['fill', 'widen'],
         {'widen': [chg_a]}, {'default_fill.sql': sql}),
        ('sql-between-pythons', ['addn', 'fill', 'widen'],
         {'addn': [add_n1], 'widen': [chg_a]}, {'fill.sql': sql}),
    ]
    final = start
    for name, seq, mods, files in variants:
        spec = S.clone(start)
        if 'addn' in seq:
            spec = ML.apply(spec, 'va', ['AddField', 'Item', 'n1', 'Int',
                                         {'null': True}, None])
        spec = ML.apply(spec, 'va', ['ChangeField', 'Item', 'a',
                                     {'max_length': 30}, None, None])
        MZ.install(start, evolutions={'va': {'SEQUENCE': [],
                                             'modules': {}}})
        B.fresh_db('default')
        B.reset_globals()
        EB.upgrade('D2')
        from vf import rows as RW
        RW.populate(start, 'R2', 'default')
        MZ.install(spec, evolutions={'va': {
            'SEQUENCE': seq,
            'modules': {l: {'MUTATIONS': m} for l, m in mods.items()},
            'sql_files': files}})
        B.reset_globals()
        seq_ = [0]
        tracer = O.Tracer('default', seq=seq_)
        lock = management._evolve_lock
        with O.SignalLog(seq_) as log:
            res = EB.upgrade('D2', tracer=tracer)
        stats['extra_runs'] += 1
        replay = {'scenario': 'sql-files', 'variant': name}
        if not res.ok:
            coll.add('C17|sql-file-run-fails|%s|%s' % (res.exc_type, name),
                     replay, {'error': str(res.exc)[:200]})
            continue
        for clause, detail in acceptor.check(
                log.events, tracer.statements, 'ok', lock,
                management._evolve_lock, saved=True):
            coll.add('C17|%s|sql-files:%s' % (clause, name), replay, detail)
        announced = sorted(set(
            tuple(e) for (_s, nm, p) in log.events
            if nm == 'applied_evolution' for e in p.get('evolutions', [])))
        if announced != sorted(('va', l) for l in seq):
            coll.add('C17|payload-evolutions-wrong|sql-files:%s' % name,
                     replay, {'announced': announced})
        cols = dict((c[0], c[1]) for c in O.table_dump(
            'va_item', 'default')['columns'])
        missing = []
        if cols.get('a') != 'varchar(30)':
            missing.append('widen')
        if 'addn' in seq and 'n1' not in cols:
            missing.append('addn')
        if any(any(v == (None, 'null') for v in r[1:2])
               for r in O.row_dump('default')['va_item']['rows']):
            pass
        nulls = [r for r in O.row_dump('default')['va_item']['rows']
                 if (None, 'null') in r[:2]]
        if nulls:
            missing.append('fill')
        if missing:
            coll.add('C17|announced-as-applied-but-not-in-the-database|'
                     'sql-files:%s' % name, replay, {'missing': missing})


def split_batch_scenario(coll, stats):
    """An app whose two pending evolutions are forced into different
    batches by a migration dependency: the evolutions carried by each
    applying/applied_evolution pair must be exactly those whose SQL runs
    between the pair."""
    from vf.checks import c09_pipeline as CP
    from django_evolution import management
    for deps, shared in (
            ([(('va', 'a2'), ('AFTER_MIGRATIONS', ('vm', '0002_add_x')))],
             False),
            ([(('va', 'a1'), ('BEFORE_MIGRATIONS', ('vm', '0001_initial')))],
             False),
            ([], False),
            # the other app's evolution carries the label of va's LATER one
            ([(('va', 'a2'), ('AFTER_MIGRATIONS', ('vm', '0002_add_x')))],
             True),
            # ... and is forced into va's FIRST batch
            ([(('va', 'a2'), ('AFTER_MIGRATIONS', ('vm', '0002_add_x'))),
              (('vab', 'b1'), ('BEFORE_MIGRATIONS',
                               ('vm', '0001_initial')))], True),
            ([(('va', 'a2'), ('AFTER_MIGRATIONS', ('vm', '0002_add_x'))),
              (('vab', 'b1'), ('BEFORE_MIGRATIONS',
                               ('vm', '0001_initial')))], False),
            ([], True)):
        img = CP.start_image(False)
        CP.VAB_LABEL[0] = 'a2' if shared else 'b1'
        CP.install(2, deps)
        B.restore(img, 'default')
        B.reset_globals()
        seq = [0]
        tracer = O.Tracer('default', seq=seq)
        lock = management._evolve_lock
        with O.SignalLog(seq) as log:
            res = D.d2_all(tracer=tracer)
        stats['extra_runs'] += 1
        replay = {'scenario': 'split-batches', 'deps': str(deps),
                  'shared_label': shared}
        if not res.ok:
            coll.add('C17|split-batch-run-fails|%s' % res.exc_type, replay,
                     {'error': str(res.exc)[:200]})
            continue
        for clause, detail in acceptor.check(
                log.events, tracer.statements, 'ok', lock,
                management._evolve_lock, saved=True):
            coll.add('C17|%s|split-batches' % clause, replay, detail)
        evs = log.events
        for i, (sq, name, p) in enumerate(evs):
            if name != 'applying_evolution':
                continue
            ends = [e[0] for e in evs[i + 1:]
                    if e[1] == 'applied_evolution']
            end = min(ends) if ends else 10 ** 9
            between = [(q, pr) for (s_, q, pr, f) in tracer.statements
                       if sq < s_ < end and O.is_effect(q)]
            executed = [(u[1], u[2]) for u in CP.units_from_sql(
                between, dedup=False) if u[0] == 'e']
            carried = [tuple(e) for e in p['evolutions']]
            extra = [e for e in carried if e not in executed]
            if extra and not deps == []:
                coll.add('C17|payload-names-evolutions-not-executed-between-'
                         'the-pair|split-batches', replay,
                         {'carried': carried, 'executed': executed})
                break
            unnamed = [e for e in executed if e not in carried]
            if unnamed:
                coll.add('C17|sql-of-evolutions-the-pair-does-not-name|'
                         'split-batches', replay,
                         {'carried': carried, 'executed': executed})
                break
    CP.VAB_LABEL[0] = 'b1'


def handover_scenarios(coll, stats, tier):
    """The C10 hand-over configurations (evolutions, marked and executed
    migrations, soft-applied initial migrations) under the acceptor."""
    from vf.checks import c10
    from django_evolution import management
    for cfg_t in c10.configs(tier):
        if len(cfg_t) != 6:
            continue        # other-database configurations are C10's
        (k, m, s_, st, nb, pkg) = cfg_t
        if pkg:
            continue
        cfg = c10.Config(k, m, s_, st, nb, pkg)
        B.fresh_db('default')
        B.reset_globals()
        if cfg.start != 'empty':
            upto = 0 if cfg.start == 'v0' else int(cfg.start[1:])
            cfg.install_old(upto)
            if not EB.upgrade('D2').ok:
                continue
        cfg.install_final()
        B.reset_globals()
        seq = [0]
        tracer = O.Tracer('default', seq=seq)
        lock = management._evolve_lock
        with O.SignalLog(seq) as log:
            res = EB.upgrade('D2', tracer=tracer)
        stats['extra_runs'] += 1
        replay = dict(cfg.describe(), scenario='handover')
        for clause, detail in acceptor.check(
                log.events, tracer.statements,
                'ok' if res.ok else 'failed', lock, management._evolve_lock,
                saved=res.ok):
            coll.add('C17|%s|handover|%s' % (
                clause, 'ok' if res.ok else 'failed-run'), replay, detail)
        if res.ok:
            # applied_migration must be reported for exactly the migrations
            # this run recorded as executed (incl. soft-applied ones)
            started = [p['migration'] for (_q, n, p) in log.events
                       if n == 'applying_migration']
            done = [p['migration'] for (_q, n, p) in log.events
                    if n == 'applied_migration']
            if sorted(started) != sorted(done):
                coll.add('C17|applying_migration-not-matched-by-applied_'
                         'migration|handover', replay,
                         {'applying': started, 'applied': done})


def run(tier, seed, confirm=True):
    t0 = time.time()
    total, coll, tasks = c07.run(tier, seed, confirm=False, prop='C17')
    stats = {'extra_runs': 0}
    extra_scenarios(coll, stats)
    split_batch_scenario(coll, stats)
    raw_sql_scenario(coll, stats)
    sql_file_scenario(coll, stats)
    unmanaged_model_scenario(coll, stats)
    handover_scenarios(coll, stats, tier)
    coverage = {
        'evaluations': total['runs'] + stats['extra_runs'],
        'distinct_nontrivial': total['faulted_runs'] + total['programs'],
        'rule': 'the signal/statement log of every run of the C07 '
                'enumeration (one fault-free run per program and one run '
                'per (program, faulted statement index)), plus runs with '
                'nothing to do and a two-app upgrade with a fault at every '
                'statement; non-trivial = distinct (program, fault index) '
                'pairs incl. fault-free',
        'samples': total['samples'][:2],
        'exhaustive': True,
        'programs': total['programs'],
        'faulted_runs': total['faulted_runs'],
        'extra_scenario_runs': stats['extra_runs'],
    }
    print('C17 %s: %d runs checked by the acceptor (%d faulted)' % (
        tier, coverage['evaluations'], total['faulted_runs']))
    return common.finish('C17', tier, seed, 'fault_enumeration', coverage,
                         coll, t0, confirm=confirm, assumptions=[
        'SQL of deferred index creation for new models and PRAGMA '
        'statements are not attributed to a signal pair',
        'migration signals are exercised by C10'])


def replay(path):
    doc = common.load_replay(path)
    r = doc['replay']
    if 'scenario' in r:
        coll = findings.Collector('C17')
        extra_scenarios(coll, {'extra_runs': 0})
        split_batch_scenario(coll, {'extra_runs': 0})
        raw_sql_scenario(coll, {'extra_runs': 0})
        sql_file_scenario(coll, {'extra_runs': 0})
        unmanaged_model_scenario(coll, {'extra_runs': 0})
        handover_scenarios(coll, {'extra_runs': 0}, 'thorough')
        for fp in coll.by_fp:
            print('  ', fp)
        if doc['fingerprint'] in coll.by_fp:
            print('REPRODUCED %s' % doc['fingerprint'])
            return 1
        print('NOT-REPRODUCED')
        return 0
    return c07.replay(path, prop='C17')
