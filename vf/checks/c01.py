"""C01 - evolved database schema equals the schema of freshly created models.

Engine A BFS through driver D1.  See DESIGN.md section 3 (C01)."""
import time

from vf import spec as S, starts, engine_a as EA, findings, explore
from vf.checks import common

PROP = 'C01'


def m2m_subclass_tag(*specs):
    """'|m2m-subclass-with-db_table' when one of the specs has a
    many-to-many field of a project-specific class with an explicit table
    name (django-evolution only tracks db_table for ManyToManyField itself:
    C01-F12)."""
    for sp in specs:
        if not sp:
            continue
        for _label, m in S.iter_models(sp):
            for f in m['fields']:
                if f['type'] == 'M2M' and f.get('sub') and \
                        f['attrs'].get('db_table'):
                    return '|m2m-subclass-with-db_table'
    return ''


def tag_table_name_findings(fp, *specs):
    """The ingredient tag goes on the findings that are about a table name
    (a statement that names a table which is not there, a table too many or
    too few); everything else keeps its own fingerprint."""
    if fp.startswith('C01|sql-error|OperationalError|') or \
            '|table-extra:' in fp or '|table-missing:' in fp:
        return fp + m2m_subclass_tag(*specs)
    return fp


def judge(node, step, tr):
    return [(tag_table_name_findings(fp, node.spec, tr.spec_after), d)
            for fp, d in _judge(node, step, tr)]


def _judge(node, step, tr):
    out = []
    kind, detail, shape = EA.step_shape(
        step, tr.res.statements if tr.res else [])
    trig = '%s|%s' % (shape, kind if shape != 'rebuild' else '*')
    if shape != 'rebuild' and detail:
        trig += '.' + detail
    reuse = ''
    if step[1][0] == 'AddField' and tr.status in ('crash', 'sql-error'):
        # a field name freed earlier on this path (DeleteField/RenameField)
        # is used again: its own family of failures (stale index names)
        from vf.checks import c03
        if c03.has_name_reuse([tuple(p) for p in node.path] + [step]):
            reuse = '|name-reuse'
    if kind == 'DeleteApplication' and tr.status == 'crash':
        # do the app's models refer to each other in a cycle?  (no deletion
        # order exists in which every referrer goes before its target)
        app = S.get_app(node.spec, step[0])
        edges = {}
        for m in (app or {}).get('models', []):
            for f in m['fields']:
                to = f['attrs'].get('to', '')
                if f['type'] in ('FK', 'O2O', 'M2M') and \
                        to.startswith(step[0] + '.') and \
                        to.split('.', 1)[1] != m['name']:
                    edges.setdefault(m['name'], set()).add(
                        to.split('.', 1)[1])

        def reaches(a, b, seen=()):
            return any(x == b or (x not in seen and
                                  reaches(x, b, seen + (x,)))
                       for x in edges.get(a, ()))
        if any(reaches(m, m) for m in edges):
            reuse += '|reference-cycle'
    if tr.status == 'crash':
        out.append(('C01|crash|%s|%s.%s%s' % (tr.res.exc_type, kind, detail,
                                              reuse),
                    {'error': str(tr.res.exc)[:300]}))
    elif tr.status == 'sql-error':
        out.append(('C01|sql-error|%s|%s.%s%s' % (tr.res.exc_type, kind,
                                                   detail, reuse),
                    {'error': str(tr.res.exc)[:300],
                     'last': str(getattr(tr.res.exc, 'last_sql_statement',
                                         ''))[:300]}))
    elif tr.status == 'ok':
        seen = set()
        for dk, owner, where in tr.discrepancies:
            fp = 'C01|schema-equals-fresh|%s:%s|%s' % (dk, owner, trig)
            if dk == 'index-missing' and shape != 'rebuild':
                # root-cause context: the implementation's DatabaseState
                # identifies indexes by column list only
                ctx = same_cols_index_exists(tr, where)
                if ctx:
                    fp += '|' + ctx
            if dk == 'index-extra' and shape != 'rebuild':
                # the index that should be gone is there: do the evolved
                # models declare another index/constraint over the same
                # columns (then find_index() may have picked that one and
                # dropped it instead, C01-F02) or not (then nothing was
                # dropped at all)?
                if owner in ('fk-index', 'field.db_index') and \
                        same_cols_meta_entry(tr.spec_after, where):
                    fp += '|same-cols-meta-entry'
            if fp not in seen:
                seen.add(fp)
                out.append((fp, {'where': where}))
        if tr.fk_violations:
            out.append(('C01|fk-check|%s' % trig,
                        {'rows': tr.fk_violations[:3]}))
        if tr.touched_unrelated:
            out.append(('C01|unrelated-untouched|%s' % trig,
                        {'tables': tr.touched_unrelated}))
    return out


def same_cols_meta_entry(spec, where):
    """Does the model that owns table `where` declare a Meta index,
    constraint or together-group over exactly the columns of the index
    entry `where` names?"""
    table, entry = where.split(' ', 1)
    cols = [c for c, _d in eval(entry)[0]]
    for label, m in S.iter_models(spec):
        if S.table_name(label, m) != table:
            continue
        names = []
        for c in cols:
            fs = [f['name'] for f in m['fields']
                  if f['type'] != 'M2M' and S.column_name(f) == c]
            if not fs:
                return False
            names.append(fs[0])
        meta = m['meta']
        groups = [list(g) for g in (meta.get('unique_together') or [])] + \
            [list(g) for g in (meta.get('index_together') or [])] + \
            [[x.lstrip('-') for x in i['fields']]
             for i in (meta.get('indexes') or [])] + \
            [list(c['fields']) for c in (meta.get('constraints') or [])
             if c.get('fields')]
        return names in groups
    return False


def same_cols_index_exists(tr, where, at_least=1):
    """Root-cause context for a missing index: which kinds of constraint
    over the same column list does the evolved table already hold (as
    Django's introspection, which DatabaseState.rescan_tables uses, reports
    them)?  Returns '' or e.g. 'same-cols:check+index'."""
    from django.db import connections
    table, entry = where.split(' ', 1)
    entry = eval(entry)
    cols = [c for c, _d in entry[0]]
    conn = connections['default']
    kinds = set()
    n = 0
    try:
        with conn.cursor() as cur:
            cons = conn.introspection.get_constraints(cur, table)
    except Exception:
        return ''
    for name, info in cons.items():
        if list(info.get('columns') or []) == cols:
            n += 1
            if info.get('primary_key'):
                kinds.add('pk')
            elif info.get('check'):
                kinds.add('check')
            elif info.get('unique'):
                kinds.add('unique')
            elif info.get('index'):
                kinds.add('index')
            else:
                kinds.add('other')
    return 'same-cols-constraint-exists' if kinds and n >= at_least else ''


def hinted_targets(project, level, depth):
    """Reference-model successors of `project` at distance <= depth (each
    distinct target once)."""
    from vf import alphabet as AL, mutlang as ML
    seen = {S.canon_unordered(project)}
    frontier, out = [(project, None)], []
    for _d in range(depth):
        nxt = []
        for p, touched in frontier:
            for label, mj in AL.enabled(p, level=level):
                if mj[0] in ('SQLBarrier', 'RenameAppLabel',
                             'DeleteApplication'):
                    continue
                if touched is not None and (label, mj[1]) == touched:
                    # several changes to ONE table in one batch are C03's
                    # domain; here the second step goes to another model
                    continue
                t = ML.apply(p, label, mj)
                k = S.canon_unordered(t)
                if k in seen:
                    continue
                seen.add(k)
                out.append(t)
                nxt.append((t, (label, mj[1])))
        frontier = nxt
    if depth >= 2:
        # two Meta options of ONE model changed at once (the hint holds two
        # ChangeMeta mutations for the same model)
        for app in project['apps']:
            label = app['label']
            for m in app['models']:
                menu = {}
                for prop, value in AL.meta_menu(m, level):
                    if value:
                        menu.setdefault(prop, value)
                props = sorted(menu)
                for i in range(len(props)):
                    for j in range(i + 1, len(props)):
                        try:
                            t = ML.apply(project, label, [
                                'ChangeMeta', m['name'], props[i],
                                menu[props[i]]])
                            t = ML.apply(t, label, [
                                'ChangeMeta', m['name'], props[j],
                                menu[props[j]]])
                        except ML.Disabled:
                            continue
                        k = S.canon_unordered(t)
                        if k not in seen:
                            seen.add(k)
                            out.append(t)
        # a field *moved* between two models of an app (same name deleted
        # here, added there): names collide across models
        for app in project['apps']:
            label = app['label']
            for src in app['models']:
                for f in src['fields']:
                    if f['type'] not in ('Char', 'Int', 'Text') or \
                            f['attrs'].get('primary_key'):
                        continue
                    for dst in app['models']:
                        if dst is src or S.get_field(dst, f['name']):
                            continue
                        attrs = dict(f['attrs'], null=True)
                        for k in ('unique', 'db_index', 'db_column'):
                            attrs.pop(k, None)
                        try:
                            t = ML.apply(project, label, [
                                'DeleteField', src['name'], f['name']])
                            t = ML.apply(t, label, [
                                'AddField', dst['name'], f['name'],
                                f['type'], attrs, None])
                        except ML.Disabled:
                            continue
                        k = S.canon_unordered(t)
                        if k not in seen:
                            seen.add(k)
                            out.append(t)
    return out


def hinted_programs(name, project, level, stats, violations, depth=1):
    """For every successor t of the start s within `depth` steps of the
    reference model, execute the *hinted* evolution
    Diff(sig_s, sig_t).evolution() from s (one batch, possibly several
    mutations over several models) and compare with the freshly created
    t."""
    from django_evolution.diff import Diff
    from django_evolution.placeholders import BasePlaceholder
    from vf import refstate as R, bootstrap as B, drivers as D
    from vf import alphabet as AL, mutlang as ML, observe as O
    from vf import materialize as MZ
    for target in hinted_targets(project, level, depth):
        hinted_one(project, target, stats, violations)


def hinted_one(project, target, stats, violations):
    from django_evolution.diff import Diff
    from django_evolution.placeholders import BasePlaceholder
    from vf import refstate as R, bootstrap as B, drivers as D
    from vf import observe as O
    from vf import materialize as MZ
    ent_s = R.fresh(project)
    for _once in (1,):
        ent_t = R.fresh(target)
        MZ.install(target)
        sig_s, sig_t = R.load_sig(ent_s['sig']), R.load_sig(ent_t['sig'])
        try:
            hint = Diff(sig_s, sig_t).evolution()
        except Exception:
            continue        # C05's business
        muts, steps = [], []
        skip = False
        for al, ms in hint.items():
            for m in ms:
                if isinstance(getattr(m, 'initial', None), BasePlaceholder):
                    skip = True
                muts.append(m)
                steps.append((al, ['Hinted', type(m).__name__]))
        stats['hinted_programs'] = stats.get('hinted_programs', 0) + 1
        if skip or not muts:
            stats['hinted_skipped'] = stats.get('hinted_skipped', 0) + 1
            continue
        import copy
        muts0 = copy.deepcopy(muts)
        B.restore(ent_s['image'], 'default')
        B.reset_globals()
        res = D.d1(sig_s, steps, real=muts)
        shape = '+'.join(sorted(set(type(m).__name__ for m in muts)))
        replay = {'start': project, 'rows': None, 'hinted_target': target,
                  'steps': []}
        fps = []
        if not res.ok:
            if res.exc_type in D.REFUSALS and res.stage == 'generate':
                continue
            fps.append(('C01|%s|%s|hinted:%s' % (
                'crash' if res.stage == 'generate' else 'sql-error',
                res.exc_type, shape), {'error': str(res.exc)[:300],
                                        'hint': str(hint)[:300]}))
        else:
            ok, _d = R.sig_equal(res.sig, sig_t, ignore_upgrade_method=True)
            if not ok:
                # either the hint does not resolve the change (C05's
                # business) or the batch processing lost part of it: decided
                # by applying the hinted mutations one at a time
                B.restore(ent_s['image'], 'default')
                B.reset_globals()
                sig_i, good = sig_s, True
                for (al, st), m in zip(steps, muts0):
                    r1 = D.d1(sig_i, [(al, st)], real=[m])
                    if not r1.ok:
                        good = False
                        break
                    sig_i = r1.sig
                if good and R.sig_equal(sig_i, sig_t,
                                        ignore_upgrade_method=True)[0]:
                    fps.append((
                        'C01|hinted-batch-loses-changes|%s' % shape,
                        {'hint': str(hint)[:300], 'diff': str(_d)[:300]}))
                else:
                    continue
                disc = []
            else:
                disc = EA.schema_discrepancies(O.schema_dump('default'),
                                               ent_t['schema'], project,
                                               target)
            rebuilt = bool(D.rebuilds(res.statements))
            seen = set()
            for dk, owner, where in disc:
                if rebuilt:
                    fp = 'C01|schema-equals-fresh|%s:%s|rebuild|*' % (dk,
                                                                     owner)
                else:
                    # only the mutations that touch the affected table name
                    # the trigger (a batch may span several models)
                    tbl = str(where).split(' ')[0]
                    local = set()
                    for al, ms in hint.items():
                        for m in ms:
                            mn = getattr(m, 'model_name', None)
                            for sp in (project, target):
                                md = S.get_model(sp, al, mn) if mn else None
                                if md is not None and \
                                        S.table_name(al, md) == tbl:
                                    local.add(type(m).__name__)
                    fp = 'C01|schema-equals-fresh|%s:%s|in-place|hinted:%s' \
                        % (dk, owner, '+'.join(sorted(local)) or shape)
                    if dk == 'index-missing':
                        ctx = same_cols_index_exists(None, where)
                        if ctx:
                            fp += '|' + ctx
                if fp not in seen:
                    seen.add(fp)
                    fps.append((fp, {'where': where,
                                     'hint': str(hint)[:300]}))
        for fp, detail in fps:
            fp = tag_table_name_findings(fp, project, target)
            ent = violations.get(fp)
            size = len(S.canon(replay))
            if ent is None:
                violations[fp] = {'count': 1, 'exemplar': replay,
                                  'detail': detail, 'size': size}
            else:
                ent['count'] += 1
                if size < ent['size']:
                    ent.update(exemplar=replay, detail=detail, size=size)


def work(task):
    name, project, depth, level, maxt = task
    if depth == 'hinted':
        stats = {'states': 0, 'transitions': 0, 'validated': 0, 'refused': 0,
                 'gate': 0, 'violating_transitions': 0, 'dedup_hits': 0,
                 'by_kind': {}, 'statuses': {}, 'rebuild_transitions': 0,
                 'capped': False, 'samples': [], 'gate_samples': [],
                 'refused_samples': [], 'max_depth': 0, 'starts': 0}
        violations = {}
        hinted_programs(name, project, level, stats, violations,
                        depth=maxt or 1)
        return name, stats, violations
    stats, violations = EA.bfs(project, depth, judge, level=level,
                               max_transitions=maxt)
    stats['starts'] = 1
    return name, stats, violations


def extra_starts():
    """Two apps whose models have the SAME class name (relations between
    them are told apart by app label only)."""
    from vf.spec import F, M, A, P
    return [('S3-same-names', P(
        A('va', [M('Tag', [F('name', 'Char', max_length=20)])]),
        A('vab', [M('Tag', [F('name', 'Char', max_length=20)]),
                  M('Item', [F('title', 'Char', max_length=20),
                             F('tag', 'FK', to='va.Tag', null=True)])])))]


def tasks_for(tier):
    tasks = []
    for name, p in extra_starts():
        tasks.append((name, p, 1 if tier == 'quick' else 2, 'full', None))
    if tier == 'quick':
        for name, p in starts.s1() + starts.s2() + starts.s3():
            tasks.append((name, p, 1, 'full', None))
        for name, p in starts.s1(fieldsets=('V1',),
                                 metas=('none', 'tbl')):
            tasks.append((name + '-d2', p, 2, 'lite', None))
        for name, p in starts.s1() + starts.s2() + starts.s3():
            tasks.append((name + '-hinted', p, 'hinted', 'lite', None))
        # two-step targets (second step on another model) on the
        # multi-model starts: the hint is one batch across models
        for name, p in starts.s2():
            tasks.append((name + '-hinted2', p, 'hinted', 'lite', 2))
    else:
        for name, p in starts.s2() + starts.s3():
            tasks.append((name + '-hinted2', p, 'hinted', 'lite', 2))
        for name, p in starts.s1() + starts.s2() + starts.s3():
            tasks.append((name + '-hinted', p, 'hinted', 'full', None))
        for name, p in starts.s1() + starts.s2() + starts.s3():
            tasks.append((name, p, 2, 'full', None))
        for name, p in starts.s1(fieldsets=('V1',), metas=('none', 'ut',
                                                           'tbl')):
            tasks.append((name + '-d3', p, 3, 'lite', None))
        for name, p in starts.s2()[:2]:
            tasks.append((name + '-d3', p, 3, 'lite', None))
    return tasks


def run(tier, seed, confirm=True):
    t0 = time.time()
    tasks = tasks_for(tier)
    total = {}
    coll = findings.Collector(PROP)
    for name, stats, violations in explore.run_tasks(
            'vf.checks.c01.work', tasks, seed=seed, progress=10):
        common.merge_stats(total, stats)
        coll.merge(violations)
    coverage = {
        'states': total['states'],
        'transitions': total['transitions'],
        'traces_validated_against_impl': total['validated'],
        'samples': total['samples'][:3],
        'exhaustive': not total.get('capped', False),
        'start_states': total['starts'],
        'rejected_by_gate': total['gate'],
        'gate_samples': total.get('gate_samples', [])[:3],
        'refused_by_implementation': total['refused'],
        'refused_samples': total.get('refused_samples', [])[:3],
        'transitions_by_mutation': total['by_kind'],
        'transition_statuses': total['statuses'],
        'rebuild_transitions': total['rebuild_transitions'],
        'dedup_hits': total['dedup_hits'],
        'max_depth': total['max_depth'],
        'bounds': {'tier': tier,
                   'tasks': [(t[0], 'depth=%s' % t[2], t[3]) for t in tasks]},
        'hinted_programs_executed': total.get('hinted_programs', 0) -
        total.get('hinted_skipped', 0),
        'hinted_programs_skipped_placeholder_or_empty':
            total.get('hinted_skipped', 0),
    }
    print('C01 %s: %d starts, %d states, %d transitions (%d rebuilds), '
          'statuses %s' % (tier, total['starts'], total['states'],
                           total['transitions'],
                           total['rebuild_transitions'], total['statuses']))
    return common.finish(PROP, tier, seed, 'model_checking', coverage, coll,
                         t0, confirm=confirm, assumptions=[
        'Django 4.2 SQLite schema editor defines "created from scratch"',
        'SQLite PRAGMA introspection defines the schema',
        'index/constraint names, column order, DEFAULT clauses are not '
        'compared',
        'states reached through a violating transition are not expanded',
    ])


def replay(path):
    doc = common.load_replay(path)
    r = doc['replay']
    if 'hinted_target' in r:
        viol = {}
        hinted_one(r['start'], r['hinted_target'], {}, viol)
        for fp, ent in viol.items():
            print('  %s %s' % (fp, str(ent['detail'])[:300]))
        if doc['fingerprint'] in viol:
            print('REPRODUCED %s' % doc['fingerprint'])
            return 1
        print('NOT-REPRODUCED %s' % doc['fingerprint'])
        return 0
    node = EA.start_node(r['start'], r.get('rows'))
    fps = []
    for step in r['steps']:
        tr = EA.execute(node, tuple(step) if not isinstance(step, tuple)
                        else step)
        found = judge(node, step, tr)
        print('step %s -> %s %s' % (S.canon(step), tr.status,
                                    [f for f, _ in found]))
        if tr.res is not None:
            for sql, params in tr.res.statements:
                print('    SQL: %s %r' % (sql, params))
            if tr.res.exc is not None:
                print('    EXC: %r' % (tr.res.exc,))
        for d in tr.discrepancies:
            print('    DISCREPANCY: %r' % (d,))
        fps += [f for f, _ in found]
        if tr.child is None:
            break
        node = tr.child
    if doc['fingerprint'] in fps:
        print('REPRODUCED %s' % doc['fingerprint'])
        return 1
    print('NOT-REPRODUCED %s (got %s)' % (doc['fingerprint'], fps))
    return 0
