"""C06 - stored project signatures read back exactly as written.

Exhaustive enumeration of (a) the signatures of every start spec and every
depth-1 successor of Engine A, (b) directly constructed signatures over the
bounded value grammar of vf/values.py; each through three channels:
deserialize(serialize()), the JSON path SignatureField.to_python uses
(object_pairs_hook=OrderedDict), and a real Version.save()/reload on SQLite;
plus v2 -> v1 -> v2 for the v1-expressible subset."""
import json
import time
from collections import OrderedDict

from vf import spec as S, starts, mutlang as ML, alphabet as AL
from vf import refstate as R, bootstrap as B, values as V
from vf import findings, explore
from vf.checks import common

PROP = 'C06'


def base_model_sig(extra_fields=()):
    from django.db import models
    from django_evolution.signature import (ModelSignature, FieldSignature)
    ms = ModelSignature(model_name='Item', table_name='va_item',
                        pk_column='id')
    ms.add_field_sig(FieldSignature('id', models.AutoField,
                                    {'primary_key': True}))
    ms.add_field_sig(FieldSignature('a', models.CharField,
                                    {'max_length': 20}))
    ms.add_field_sig(FieldSignature('b', models.IntegerField, {}))
    for fs in extra_fields:
        ms.add_field_sig(fs)
    return ms


def project_of(ms, upgrade_method=None, applied=None, app_id='va'):
    from django_evolution.signature import ProjectSignature, AppSignature
    ps = ProjectSignature()
    a = AppSignature(app_id=app_id, legacy_app_label=app_id,
                     upgrade_method=upgrade_method,
                     applied_migrations=applied)
    a.add_model_sig(ms)
    ps.add_app_sig(a)
    return ps


def constructed(depth):
    """(label, ProjectSignature, v1_expressible)"""
    from django.db import models
    from django_evolution.signature import (FieldSignature, IndexSignature,
                                            ConstraintSignature)
    out = []
    for label, idx in V.index_variants(depth):
        ms = base_model_sig()
        ms.add_index_sig(IndexSignature.from_index(idx))
        out.append(('index.' + label, project_of(ms), False))
    # two indexes, both orders
    a, b = V.index_variants(1)[1][1], V.index_variants(1)[2][1]
    for name, pair in (('two-indexes', (a, b)), ('two-indexes-rev', (b, a))):
        ms = base_model_sig()
        for i in pair:
            ms.add_index_sig(IndexSignature.from_index(i))
        out.append(('index.' + name, project_of(ms), False))
    # two classes with the same name from different modules in one
    # signature, both orders
    from django.db.models.functions import Lower
    VLower = V.vendor_lower()
    for name, pair in (('same-named-classes', (Lower('a'), VLower('a'))),
                       ('same-named-classes-rev', (VLower('a'),
                                                   Lower('a')))):
        ms = base_model_sig()
        for n, ex in enumerate(pair):
            ms.add_index_sig(IndexSignature.from_index(
                models.Index(ex, name='ix_same%d' % n)))
        out.append(('index.' + name, project_of(ms), False))
    for label, con in V.constraint_variants(depth):
        ms = base_model_sig()
        ms.add_constraint_sig(ConstraintSignature.from_constraint(con))
        out.append(('constraint.' + label, project_of(ms), False))
    for label, cls, attrs in V.field_attr_variants():
        ms = base_model_sig([FieldSignature('x', getattr(models, cls),
                                            dict(attrs))])
        out.append(('field.' + label, project_of(ms), True))
    for rel, cls in (('fk', models.ForeignKey), ('o2o', models.OneToOneField),
                     ('m2m', models.ManyToManyField)):
        ms = base_model_sig([FieldSignature('r', cls, {'null': True}
                                            if rel != 'm2m' else {},
                                            related_model='va.Item')])
        out.append(('relation.' + rel, project_of(ms), True))
    ms = base_model_sig([FieldSignature('r', models.ManyToManyField,
                                        {'db_table': 'custom "tbl"'},
                                        related_model='vab.Other')])
    out.append(('relation.m2m-db_table', project_of(ms), True))
    # representable combinations only (what get_app_upgrade_info() and
    # execute_tasks() can produce)
    for um, applied in ((None, None), ('evolutions', None),
                        ('evolutions', ['0001_initial']),
                        ('migrations', None),
                        ('migrations', ['0001_initial']),
                        ('migrations', ['0001_initial', '0002_more'])):
        if True:
            out.append(('app.upgrade_method=%s,applied=%s' % (um, applied),
                        project_of(base_model_sig(), um, applied), False))
        # the same entry under the id of an app that IS installed and ships
        # evolutions and migrations of its own (nothing may be guessed from
        # the installed app when a version-2 signature is read)
        for app_id in ('contenttypes', 'django_evolution'):
            out.append(('app-installed.upgrade_method=%s,applied=%s,id=%s' % (
                um, applied, app_id),
                project_of(base_model_sig(), um, applied, app_id), False))
    for ut in ([('a', 'b')], [['a', 'b']], [('a', 'b'), ('b', 'a')],
               # several groups, declared in an order that is not the
               # sorted one
               [('b', 'c'), ('a', 'b')], [('c', 'a'), ('b', 'c'), ('a', 'b')]):
        ms = base_model_sig()
        ms.unique_together = ut
        out.append(('meta.unique_together=%r' % (ut,), project_of(ms), True))
    for it in ([('a', 'b')], [['a', 'b']], [('b', 'c'), ('a', 'b')]):
        ms = base_model_sig()
        ms.index_together = it
        out.append(('meta.index_together=%r' % (it,), project_of(ms), True))
    ms = base_model_sig()
    ms.db_table_comment = 'a "comment" with \'quotes\' ü'
    out.append(('meta.db_table_comment', project_of(ms), False))
    return out


def check_one(label, sig, v1_ok, add, stats, use_db=True):
    from django_evolution.signature import ProjectSignature
    from django_evolution.diff import Diff
    from django_evolution.models import Version
    stats['signatures'] += 1

    def compare(channel, back):
        stats['round_trips'] += 1
        bad = []
        try:
            if not (back == sig):
                bad.append('not-equal')
        except Exception as e:
            bad.append('eq-raises:%s' % type(e).__name__)
        try:
            d1, d2 = Diff(sig, back), Diff(back, sig)
            if not (d1.is_empty(ignore_apps=False) and
                    d2.is_empty(ignore_apps=False)):
                bad.append('diff-not-empty')
        except Exception as e:
            bad.append('diff-raises:%s' % type(e).__name__)
        try:
            t1 = json.dumps(sig.serialize(), sort_keys=True)
            t2 = json.dumps(back.serialize(), sort_keys=True)
            if t1 != t2:
                bad.append('reserialised-text-differs')
        except Exception as e:
            bad.append('reserialise-raises:%s' % type(e).__name__)
        for b in bad:
            add('C06|%s|%s|%s' % (channel, b, kind_of(label)), label,
                {'label': label})

    try:
        ser = sig.serialize()
    except Exception as e:
        add('C06|serialize|raises:%s|%s' % (type(e).__name__,
                                            kind_of(label)), label,
            {'label': label, 'error': str(e)[:200]})
        return
    import copy
    for channel, fn in (
            ('direct', lambda: ProjectSignature.deserialize(
                copy.deepcopy(ser))),
            ('json', lambda: ProjectSignature.deserialize(json.loads(
                json.dumps(ser), object_pairs_hook=OrderedDict)))):
        try:
            back = fn()
        except Exception as e:
            add('C06|%s|raises:%s|%s' % (channel, type(e).__name__,
                                         kind_of(label)), label,
                {'label': label, 'error': str(e)[:200]})
            continue
        compare(channel, back)
    if use_db:
        try:
            v = Version(signature=sig)
            v.save()
            back = Version.objects.get(pk=v.pk).signature
            compare('database', back)
            v.delete()
        except Exception as e:
            add('C06|database|raises:%s|%s' % (type(e).__name__,
                                               kind_of(label)), label,
                {'label': label, 'error': str(e)[:200]})
    if v1_ok and use_db:
        # a legacy row: protocol-0 pickle of the version-1 dictionary stored
        # as text (written here independently of compat.py23)
        try:
            import pickle
            from django.db import connection
            legacy = pickle.dumps(sig.serialize(sig_version=1),
                                  protocol=0).decode('latin1')
            v = Version(signature=ProjectSignature())
            v.save()
            with connection.cursor() as cur:
                cur.execute('UPDATE django_project_version SET signature=%s '
                            'WHERE id=%s', [legacy, v.pk])
            back = Version.objects.get(pk=v.pk).signature
            stats['round_trips'] += 1
            d1, d2 = Diff(sig, back), Diff(back, sig)
            if not (d1.is_empty(ignore_apps=False) and
                    d2.is_empty(ignore_apps=False)):
                add('C06|v1-pickle-row|diff-not-empty|%s' % kind_of(label),
                    label, {'label': label, 'diff': str(d1)[:200]})
            v.delete()
        except Exception as e:
            add('C06|v1-pickle-row|raises:%s|%s' % (type(e).__name__,
                                                    kind_of(label)),
                label, {'label': label, 'error': str(e)[:200]})
    if v1_ok and 'unique_together' in label:
        # a stored signature from before the "unique_together applied"
        # marker existed: it must load as recorded-but-not-applied
        try:
            for version in (1, 2):
                raw = copy.deepcopy(sig.serialize(sig_version=version))

                def strip(x):
                    if isinstance(x, dict):
                        x.pop('__unique_together_applied', None)
                        for v in x.values():
                            strip(v)
                    elif isinstance(x, list):
                        for v in x:
                            strip(v)
                strip(raw)
                back = ProjectSignature.deserialize(raw)
                want = sig.clone()
                for a in want.app_sigs:
                    for m in a.model_sigs:
                        m._unique_together_applied = False
                stats['round_trips'] += 1
                d1, d2 = Diff(want, back), Diff(back, want)
                if not (back == want) or not (
                        d1.is_empty(ignore_apps=False) and
                        d2.is_empty(ignore_apps=False)):
                    add('C06|v%d-without-applied-marker|%s|%s' % (
                        version, 'not-equal' if not (back == want) else
                        'diff-not-empty', kind_of(label)), label,
                        {'label': label})
        except Exception as e:
            add('C06|without-applied-marker|raises:%s|%s' % (
                type(e).__name__, kind_of(label)), label,
                {'label': label, 'error': str(e)[:200]})
    if v1_ok:
        try:
            v1 = sig.serialize(sig_version=1)
            back = ProjectSignature.deserialize(copy.deepcopy(v1))
            stats['round_trips'] += 1
            d1, d2 = Diff(sig, back), Diff(back, sig)
            if not (d1.is_empty(ignore_apps=False) and
                    d2.is_empty(ignore_apps=False)):
                add('C06|v1|diff-not-empty|%s' % kind_of(label), label,
                    {'label': label, 'diff': str(d1)[:200]})
        except Exception as e:
            add('C06|v1|raises:%s|%s' % (type(e).__name__, kind_of(label)),
                label, {'label': label, 'error': str(e)[:200]})


def kind_of(label):
    """Coarse construct class of a label for fingerprints."""
    import re
    head = label.split(':')[0]
    if label.startswith('spec:'):
        return 'generated-model-signature'
    rest = label[len(head) + 1:]
    ops = ''.join(sorted(set(re.findall(r' ([&|^]) ', rest))))
    neg = '~' if '~' in rest else ''
    single = 'nested' if 'Q(Q(' in rest or 'Q(~Q(' in rest else ''
    return head + ('[%s%s%s]' % (ops, neg, single) if rest else '')


def work(task):
    kind, payload = task
    stats = {'signatures': 0, 'round_trips': 0, 'samples': []}
    viol = {}

    def add(fp, label, detail):
        ent = viol.get(fp)
        replay = {'kind': kind, 'label': label, 'payload': payload
                  if kind == 'spec' else None}
        if ent is None:
            viol[fp] = {'count': 1, 'exemplar': replay, 'detail': detail,
                        'size': len(label)}
        else:
            ent['count'] += 1
            if len(label) < ent['size']:
                ent.update(exemplar=replay, detail=detail, size=len(label))
    from vf import drivers as D
    B.restore(D.baseline(S.P(), rows=None), 'default')
    if kind == 'constructed':
        depth, lo, hi = payload
        items = constructed(depth)[lo:hi]
        for label, sig, v1_ok in items:
            check_one(label, sig, v1_ok, add, stats)
        if items:
            stats['samples'].append(items[0][0])
    else:
        name, project, level = payload
        specs = [(name, project)]
        for label, mj in AL.enabled(project, level=level):
            try:
                specs.append(('%s+%s' % (name, S.canon(mj)[:60]),
                              ML.apply(project, label, mj)))
            except ML.Disabled:
                pass
        for nm, sp in specs:
            sig = R.load_sig(R.fresh(sp)['sig'])
            check_one('spec:' + nm, sig, False, add, stats)
        stats['samples'].append('spec:' + name)
    return stats, viol


def run(tier, seed, confirm=True):
    from vf import bootstrap
    bootstrap.setup()
    t0 = time.time()
    depth = 2 if tier == 'quick' else 3
    n = len(constructed(depth))
    tasks = []
    chunk = max(1, n // 32)
    for lo in range(0, n, chunk):
        tasks.append(('constructed', (depth, lo, min(n, lo + chunk))))
    for name, p in starts.s1() + starts.s2() + starts.s3():
        tasks.append(('spec', (name, p, 'lite' if tier == 'quick'
                               else 'full')))
    total = {}
    coll = findings.Collector(PROP)
    for stats, viol in explore.run_tasks('vf.checks.c06.work', tasks,
                                         seed=seed):
        common.merge_stats(total, stats)
        coll.merge(viol)
    coverage = {
        'evaluations': total['round_trips'],
        'distinct_nontrivial': total['signatures'],
        'rule': 'every signature of the bounded value grammar (Q trees of '
                'depth <= %d with AND/OR/XOR/negation/single-child nesting, '
                'expressions, every Index/constraint option, enums, special '
                'strings, None/False/0 values, relation targets, upgrade '
                'methods x applied migrations, tuple vs list Meta) and of '
                'every start spec and its depth-1 successors, each through '
                'deserialize(serialize()), the JSON OrderedDict path, a real '
                'Version save/reload, and v2->v1->v2 where expressible; '
                'every enumerated signature is distinct and non-trivial '
                '(has at least one model)' % depth,
        'samples': total['samples'][:6],
        'exhaustive': True,
        'constructed_signatures': n,
    }
    print('C06 %s: %d signatures, %d round trips' % (
        tier, total['signatures'], total['round_trips']))
    return common.finish(PROP, tier, seed, 'exploration', coverage, coll,
                         t0, confirm=confirm, assumptions=[
        'equality clause uses ProjectSignature.__eq__; difference clause '
        'uses Diff(...).is_empty(ignore_apps=False) in both directions'])


def replay(path):
    doc = common.load_replay(path)
    r = doc['replay']
    from vf import drivers as D
    B.restore(D.baseline(S.P(), rows=None), 'default')
    found = {}

    def add(fp, label, detail):
        found[fp] = detail
    stats = {'signatures': 0, 'round_trips': 0}
    if r['kind'] == 'constructed':
        for depth in (2, 3):
            for label, sig, v1_ok in constructed(depth):
                if label == r['label']:
                    check_one(label, sig, v1_ok, add, stats)
                    break
            if stats['signatures']:
                break
    else:
        name, project, level = r['payload']
        work_stats, viol = work(('spec', r['payload']))
        found = {fp: e['detail'] for fp, e in viol.items()}
    for fp, d in found.items():
        print('  %s %s' % (fp, d))
    if doc['fingerprint'] in found:
        print('REPRODUCED %s' % doc['fingerprint'])
        return 1
    print('NOT-REPRODUCED')
    return 0
