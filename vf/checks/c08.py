"""C08 - each evolution is applied and recorded exactly once.

Engine B breadth-first search over *event histories* against one database:
install code version j, upgrade all apps, upgrade one app only, upgrade with
a fault at the first / last statement, mark-evolution-applied,
wipe-evolution.  Two apps share evolution labels.  A reference bookkeeping
model (per app the set of recorded labels, per label the number of
executions since it was last wiped) is carried next to the real database
and compared after every event."""
import io
import os
import time

from vf import spec as S, observe as O, bootstrap as B, drivers as D
from vf import engine_b as EB, materialize as MZ, findings, explore, acceptor
from vf.spec import F, M, A, P
from vf.checks import common

PROP = 'C08'


def project_history(variant):
    v0 = P(A('va', [M('Item', [F('a', 'Char', max_length=20),
                               F('b', 'Int', null=True)])]),
           A('vab', [M('Thing', [F('t', 'Char', max_length=20)])]))
    if variant == 'A':
        steps = [
            ('va', 'e1', [['AddField', 'Item', 'n1', 'Int', {'null': True},
                           None]]),
            ('vab', 'e1', [['AddField', 'Thing', 'n1', 'Int',
                            {'null': True}, None]]),
            ('va', 'e2', [['ChangeField', 'Item', 'a', {'max_length': 30},
                           None, None]]),
        ]
    else:
        steps = [
            ('va', 'e1', [['AddField', 'Item', 'n1', 'Char',
                           {'max_length': 10}, 'x'],
                          ['DeleteField', 'Item', 'b']]),
            ('vab', 'e1', [['ChangeField', 'Thing', 't', {'null': True},
                            None, None]]),
            ('vab', 'e2', [['AddField', 'Thing', 'n2', 'Int',
                            {'db_index': True}, 0]]),
        ]
    hist = EB.History(v0, steps)
    hist.variant = variant
    if variant == 'A':
        # a stale app: installed with code versions 0 and 1, removed from
        # the code afterwards (purge candidates for the UP event)
        old = A('vold', [M('Old', [F('x', 'Char', max_length=20)])])
        for j in (0, 1):
            hist.specs[j] = S.clone(hist.specs[j])
            hist.specs[j]['apps'].append(S.clone(old))
    return hist


class Explorer(object):
    def __init__(self, hist, depth, first=None):
        self.hist = hist
        self.depth = depth
        self.first = first
        self.stats = {'events': 0, 'states': 0, 'upgrade_runs': 0,
                      'failed_runs': 0, 'command_events': 0,
                      'max_depth': 0, 'samples': [], 'dedup_hits': 0}
        self.viol = {}
        self.seen = set()
        self._orphans = set()

    def add(self, fp, path, detail):
        replay = {'variant': self.hist.variant, 'events': path}
        size = len(S.canon(replay))
        ent = self.viol.get(fp)
        if ent is None:
            self.viol[fp] = {'count': 1, 'exemplar': replay,
                             'detail': detail, 'size': size}
        else:
            ent['count'] += 1
            if size < ent['size']:
                ent.update(exemplar=replay, detail=detail, size=size)

    # reference model: {'rec': {app: [labels]}, 'exec': {(app,label): n}}
    def enabled(self, j, ref, has_db):
        h = self.hist
        ev = []
        for k in range(j + 1, h.n + 1):
            ev.append(('I', k))
        if j >= 0:
            ev.append(('U',))
            if self.hist.variant == 'A':
                ev.append(('UP',))      # upgrade all + purge stale apps
            for label in [a['label'] for a in h.specs[j]['apps']]:
                ev.append(('UA', label))
            if has_db:
                ev.append(('F', 'first'))
                ev.append(('F', 'last'))
                for label in h.labels():
                    for el in h.sequence(label, j):
                        if el in ref['rec'].get(label, []):
                            ev.append(('W', label, el))
                        else:
                            ev.append(('M', label, el))
                    if h.sequence(label, j):
                        ev.append(('MA', label))    # mark --all
        return ev

    def run(self):
        h = self.hist
        ref0 = {'rec': {}, 'exec': {}}
        # root: code version 0 installed, empty database
        self.rec(0, b'', ref0, [], False)
        self.stats['states'] = len(self.seen)

    def rec(self, j, image, ref, path, has_db):
        if len(path) >= self.depth:
            return
        for ev in self.enabled(j, ref, has_db):
            if not path and self.first is not None and \
                    list(ev) != list(self.first):
                continue
            B.restore(image, 'default')
            self.hist.install(max(j, ev[1]) if ev[0] == 'I' else j)
            B.reset_globals()
            self.stats['events'] += 1
            nviol = sum(e['count'] for e in self.viol.values())
            j2, ref2, ok = self.apply(ev, j, ref, path + [list(ev)], has_db)
            if not ok:
                continue
            if sum(e['count'] for e in self.viol.values()) != nviol:
                # states reached through a violating event are not expanded
                continue
            img2 = B.snapshot('default')
            has2 = has_db or ev[0] in ('U', 'UA', 'F', 'UP')
            key = S.canon([j2, EB.canonical_state(j2),
                           sorted(ref2['exec'].items())])
            self.stats['max_depth'] = max(self.stats['max_depth'],
                                          len(path) + 1)
            if key in self.seen:
                self.stats['dedup_hits'] += 1
                continue
            self.seen.add(key)
            if len(self.stats['samples']) < 2 and len(path) + 1 == \
                    self.depth:
                self.stats['samples'].append(path + [list(ev)])
            self.rec(j2, img2, ref2, path + [list(ev)], has2)

    def observe_recorded(self):
        bk = O.bookkeeping_dump('default')
        rows = bk['evolutions'] or []
        return rows, (bk['versions'] or [])

    def apply(self, ev, j, ref, path, has_db):
        """Returns (j', ref', continue?)."""
        import copy
        h = self.hist
        ref2 = copy.deepcopy(ref)
        kind = ev[0]
        if kind == 'I':
            return ev[1], ref2, True
        if kind == 'MA':
            from django.core.management import call_command
            import contextlib
            self.stats['command_events'] += 1
            out = io.StringIO()
            seq_now = h.sequence(ev[1], j)
            already = [l for l in seq_now if l in ref['rec'].get(ev[1], [])]
            try:
                with contextlib.redirect_stdout(out):
                    call_command('mark-evolution-applied', app_label=ev[1],
                                 apply_all=True, interactive=False,
                                 stdout=out)
                refused = False
            except Exception as e:
                refused = True
                if not already:
                    self.add('C08|mark-all-command-fails|%s' %
                             type(e).__name__, path,
                             {'error': str(e)[:200]})
                    return j, ref2, False
            if not refused:
                for l in seq_now:
                    if l not in ref2['rec'].setdefault(ev[1], []):
                        ref2['rec'][ev[1]].append(l)
            self.compare_recorded(ref2, path, 'after-MA', None)
            return j, ref2, True
        if kind in ('M', 'W'):
            from django.core.management import call_command
            self.stats['command_events'] += 1
            out = io.StringIO()
            import contextlib
            try:
                with contextlib.redirect_stdout(out):
                    if kind == 'M':
                        call_command('mark-evolution-applied', ev[2],
                                     app_label=ev[1], interactive=False,
                                     stdout=out)
                    else:
                        call_command('wipe-evolution', ev[2],
                                     app_label=ev[1], interactive=False,
                                     stdout=out)
            except Exception as e:
                self.add('C08|%s-command-fails|%s' % (
                    'mark' if kind == 'M' else 'wipe', type(e).__name__),
                    path, {'error': str(e)[:200]})
                return j, ref2, False
            if kind == 'M':
                ref2['rec'].setdefault(ev[1], []).append(ev[2])
            else:
                ref2['rec'][ev[1]].remove(ev[2])
                ref2['exec'][(ev[1], ev[2])] = 0
            self.compare_recorded(ref2, path, 'after-%s' % kind, None)
            return j, ref2, True
        # ---- upgrade runs
        apps = None if kind in ('U', 'F', 'UP') else [ev[1]]
        rows_before, versions_before = self.observe_recorded() if has_db \
            else ([], [])
        fault_at = None
        if kind == 'F':
            # count the statements of the fault-free run first
            img = B.snapshot('default')
            t0 = O.Tracer('default', match=lambda q: not
                          acceptor.is_bookkeeping(q))
            r0 = D.d2_all(tracer=t0)
            n = len(t0.effects())
            B.restore(img, 'default')
            self.hist.install(j)
            B.reset_globals()
            if not r0.ok or n == 0:
                return j, ref2, False
            fault_at = 1 if ev[1] == 'first' else n
        # apps whose tables exist although the stored signature does not
        # know them (left behind by a partially committed failed run)
        self._orphans = set()
        if has_db:
            try:
                stored = D.stored_signature()
                tabs = set(O.list_tables('default'))
                for al, m in S.iter_models(h.specs[j]):
                    if stored.get_app_sig(al) is None and \
                            S.table_name(al, m) in tabs:
                        self._orphans.add(al)
            except Exception:
                pass
        seq = [0]
        tracer = O.Tracer('default', seq=seq, fault_at=fault_at,
                          match=lambda q: not acceptor.is_bookkeeping(q))
        with O.SignalLog(seq) as log:
            res = D.d2_all(tracer=tracer, apps=apps, purge=(kind == 'UP'))
        self.stats['upgrade_runs'] += 1
        fresh_apps = set()
        tables = set(O.list_tables('default'))
        rows_after, versions_after = self.observe_recorded()
        # which labels had SQL executed (signal payload + statements)
        executed = []
        evs = log.events
        for i, (sq, name, payload) in enumerate(evs):
            if name != 'applying_evolution':
                continue
            ends = [e[0] for e in evs[i + 1:]
                    if e[1] in ('applied_evolution', 'evolving_failed',
                                'evolved')]
            end = min(ends) if ends else 10 ** 9
            stmts = [q for (s_, q, p, f) in tracer.statements
                     if sq < s_ < end and O.is_effect(q) and f is None and
                     not acceptor.is_bookkeeping(q)]
            if stmts:
                executed += [tuple(e) for e in payload['evolutions']]
        seqs = {l: h.sequence(l, j) for l in h.labels()}
        target_apps = [a['label'] for a in h.specs[j]['apps']] \
            if apps is None else apps
        if not res.ok:
            self.stats['failed_runs'] += 1
            if kind != 'F' and not self.wiped_or_marked(path):
                self.add('C08|upgrade-fails|%s' % res.exc_type, path,
                         {'error': str(res.exc)[:300]})
            # recorded only if the run completed
            if sorted(rows_after) != sorted(rows_before):
                self.add('C08|recorded-although-run-failed', path,
                         {'before': rows_before, 'after': rows_after})
            return j, ref2, True
        # executed labels must be pending ones, each at most once since wipe
        for (al, el) in executed:
            if el not in seqs.get(al, []):
                self.add('C08|executed-label-not-in-sequence', path,
                         {'label': (al, el)})
            if el in ref['rec'].get(al, []):
                self.add('C08|recorded-evolution-executed-again', path,
                         {'label': (al, el)})
            ref2['exec'][(al, el)] = ref2['exec'].get((al, el), 0) + 1
            if ref2['exec'][(al, el)] > 1:
                self.add('C08|evolution-executed-twice', path,
                         {'label': (al, el)})
        first_install = {}
        for al in target_apps:
            recorded_before = set(ref['rec'].get(al, []))
            was_installed = any(a == al for (a, l, v) in rows_before) or \
                self.app_tables_existed(al, j, path)
            ref2['rec'][al] = sorted(recorded_before | set(seqs[al]))
            if not was_installed:
                first_install[al] = True
                ex = [e for e in executed if e[0] == al]
                if ex:
                    self.add('C08|fresh-app-executes-evolutions', path,
                             {'executed': ex})
        self.compare_recorded(ref2, path, 'after-upgrade',
                              (rows_before, versions_before, rows_after,
                               versions_after))
        return j, ref2, True

    def wiped_or_marked(self, path):
        return any(e[0] in ('W', 'M', 'MA', 'F') for e in path)

    def app_tables_existed(self, label, j, path):
        # an app is "installed" once an upgrade covering it succeeded
        for e in path[:-1]:
            if e[0] in ('U', 'UP') or (e[0] == 'UA' and e[1] == label):
                return True
        return False

    def compare_recorded(self, ref, path, when, run):
        rows, versions = self.observe_recorded()
        mine = [(a, l) for (a, l, v) in rows if a in self.hist.labels()]
        if len(mine) != len(set(mine)):
            dups = sorted(set(x for x in mine if mine.count(x) > 1))
            ctx = []
            for (a, l) in dups:
                # was the label marked applied before its app was ever
                # installed into this database?
                marked_at = [i for i, e in enumerate(path)
                             if (e[0] == 'M' and e[1] == a and e[2] == l)
                             or (e[0] == 'MA' and e[1] == a)]
                installed_at = [i for i, e in enumerate(path)
                                if e[0] in ('U', 'UP') or
                                (e[0] == 'UA' and e[1] == a)]
                if a in getattr(self, '_orphans', ()):
                    ctx.append('tables-exist-but-app-not-in-signature')
                elif marked_at and (not installed_at or
                                    marked_at[0] < installed_at[0]):
                    ctx.append('marked-before-app-installed')
                else:
                    ctx.append('other')
            self.add('C08|label-recorded-twice|%s|%s' % (
                when, '+'.join(sorted(set(ctx)))), path, {'rows': mine})
        want = sorted((a, l) for a, ls in ref['rec'].items() for l in ls)
        if sorted(set(mine)) != want:
            self.add('C08|recorded-labels-differ-from-reference|%s' % when,
                     path, {'want': want, 'got': sorted(set(mine))})
        if run is not None:
            rows_before, versions_before, rows_after, versions_after = run
            new_rows = [r for r in rows_after if r not in rows_before]
            new_versions = [v[0] for v in versions_after
                            if v[0] not in [x[0] for x in versions_before]]
            for (a, l, v) in new_rows:
                if v not in new_versions:
                    self.add('C08|evolution-not-attached-to-this-runs-'
                             'version', path,
                             {'row': (a, l, v), 'new_versions': new_versions})


SPLIT_DEPS = [
    [(('va', 'a2'), ('AFTER_MIGRATIONS', ('vm', '0002_add_x')))],
    [(('va', 'a1'), ('BEFORE_MIGRATIONS', ('vm', '0001_initial')))],
    [(('va', 'a1'), ('BEFORE_MIGRATIONS', ('vm', '0002_add_x'))),
     (('va', 'a2'), ('AFTER_MIGRATIONS', ('vm', '0002_add_x')))],
    [],
]


def split_batch_scenario(idx, add, stats):
    """One app whose pending evolutions are forced into different batches
    by migration dependencies (the four-app project of C09): every pending
    label's SQL must run exactly once in the run, be recorded exactly once
    on the version that run saved, and a second run must execute nothing."""
    from vf.checks import c09_pipeline as CP
    deps = SPLIT_DEPS[idx]
    for applied_a1 in (False, True):
        img = CP.start_image(applied_a1)
        CP.install(2, deps, applied_a1)
        B.restore(img, 'default')
        B.reset_globals()
        replay = {'scenario': 'split-batches', 'deps_index': idx,
                  'applied_a1': applied_a1}
        tracer = O.Tracer('default')
        res = D.d2_all(tracer=tracer)
        stats['upgrade_runs'] += 1
        ctx = 'split-batches:%s' % CP.dep_shape(deps)
        if not res.ok:
            stats['failed_runs'] += 1
            add('C08|upgrade-fails|%s|%s' % (res.exc_type, ctx), replay,
                {'error': str(res.exc)[:300]})
            continue
        units = [u for u in CP.units_from_sql(tracer.effects(), dedup=False)
                 if u[0] == 'e']
        want = [('e', 'va', 'a1'), ('e', 'va', 'a2'), ('e', 'vab', 'b1')]
        if applied_a1:
            want.remove(('e', 'va', 'a1'))
        for u in want:
            n = units.count(u)
            if n != 1:
                add('C08|evolution-sql-executed-%d-times|%s' % (n, ctx),
                    replay, {'unit': u, 'units': units})
        for u in set(units) - set(want):
            add('C08|recorded-evolution-executed-again|%s' % ctx, replay,
                {'unit': u})
        rows = (O.bookkeeping_dump('default')['evolutions'] or [])
        mine = sorted((a, l) for (a, l, v) in rows if a in ('va', 'vab'))
        if mine != [('va', 'a1'), ('va', 'a2'), ('vab', 'b1')]:
            add('C08|recorded-labels-differ-from-reference|%s' % ctx,
                replay, {'got': mine})
        # second run: nothing pending
        B.reset_globals()
        t2 = O.Tracer('default')
        r2 = D.d2_all(tracer=t2)
        stats['upgrade_runs'] += 1
        again = [u for u in CP.units_from_sql(t2.effects(), dedup=False)]
        if not r2.ok or again:
            add('C08|second-run-executes-again|%s' % ctx, replay,
                {'units': again, 'error': str(r2.exc)[:200]})


FORMS = ('py', 'raw', 'file')


def form_history(forms):
    """One app (va, model Item) with one evolution per entry of `forms`:
    'py' adds a column n<i> (AddField), 'raw' inserts a marker row through
    an SQLMutation, 'file' ships the same INSERT as <label>.sql."""
    v0 = P(A('va', [M('Item', [F('a', 'Char', max_length=20),
                               F('b', 'Int', null=True)])]))
    steps = []
    for i, form in enumerate(forms, 1):
        el = 'e%d' % i
        ins = "INSERT INTO va_item (a) VALUES ('marker%d');" % i
        if form == 'py':
            mjs = [['AddField', 'Item', 'n%d' % i, 'Int', {'null': True},
                    None]]
        elif form == 'raw':
            mjs = [['SQLRaw', 'raw%d' % i, [ins]]]
        else:
            mjs = [['SQLFile', {el + '.sql': ins + '\n'}]]
        steps.append(('va', el, mjs))
    return EB.History(v0, steps)


def form_executions(forms, statements):
    """How often the SQL of each evolution occurs in a statement trace."""
    n = {}
    for i, form in enumerate(forms, 1):
        el = 'e%d' % i
        if form == 'py':
            col = '"n%d"' % i
            # the column is added by this statement (ALTER TABLE ADD COLUMN
            # or a rebuild whose new table has it and whose copy does not
            # read it)
            cnt = 0
            texts = [st[0] if isinstance(st, tuple) else str(st)
                     for st in statements]
            for k, t in enumerate(texts):
                if t.startswith('ALTER TABLE') and 'ADD COLUMN' in t and \
                        col in t:
                    cnt += 1
                elif t.startswith('CREATE TABLE "TEMP_TABLE"') and col in t:
                    copy = [u for u in texts[k + 1:k + 3]
                            if u.startswith('INSERT INTO "TEMP_TABLE"')]
                    if not copy or col not in copy[0].split('SELECT')[-1]:
                        cnt += 1
            n[el] = cnt
        else:
            mark = "'marker%d'" % i
            n[el] = sum(1 for st in statements
                        if mark in (st[0] if isinstance(st, tuple)
                                    else str(st)))
    return n


def fresh_install_scenario(idx, add, stats):
    """An app installed fresh has its whole sequence recorded and none of
    it executed, whatever form the evolutions are shipped in (Python
    mutations, raw SQL mutation, SQL file); from an older version every
    pending evolution runs exactly once; a second run executes nothing."""
    forms = [(f1, f2) for f1 in FORMS for f2 in FORMS][idx]
    hist = form_history(forms)
    for driver in ('D2', 'D3'):
        for start in (None, 0, 1, 'flushed-v1'):
            B.fresh_db('default')
            replay = {'scenario': 'fresh-install', 'forms_index': idx,
                      'driver': driver, 'start': start}
            flushed = start == 'flushed-v1'
            ctx = '%s|start=%s|%s' % ('+'.join(forms),
                                      'empty' if start is None else
                                      start if flushed else
                                      'v%d' % start, driver)
            if flushed:
                # version 1 installed, then Django's flush: the bookkeeping
                # is emptied and the post_migrate hook installs a baseline
                # (whole sequence recorded, full signature)
                start = 1
            if start is not None:
                hist.install(start)
                B.reset_globals()
                r0 = D.d2_all()
                stats['upgrade_runs'] += 1
                if not r0.ok:
                    stats['failed_runs'] += 1
                    continue
                if flushed:
                    from django.core.management import call_command
                    import io
                    call_command('flush', interactive=False, verbosity=0,
                                 stdout=io.StringIO())
            hist.install(2)
            B.reset_globals()
            tracer = O.Tracer('default')
            res = D.d2_all(tracer=tracer) if driver == 'D2' else \
                D.d3(tracer=tracer)
            stats['upgrade_runs'] += 1
            if not res.ok:
                stats['failed_runs'] += 1
                add('C08|upgrade-fails|%s|fresh-install:%s' % (
                    res.exc_type, ctx), replay,
                    {'error': str(res.exc)[:300]})
                continue
            got = form_executions(forms, tracer.effects())
            pending = {'e1': 0 if start in (None, 1) else 1,
                       'e2': 0 if start is None else 1}
            for el in ('e1', 'e2'):
                if got[el] != pending[el]:
                    kind = 'fresh-app-executes-evolutions' \
                        if start is None else (
                            'recorded-evolution-executed-again'
                            if pending[el] == 0 else
                            'evolution-sql-executed-%d-times' % got[el])
                    add('C08|%s|fresh-install:%s|%s' % (
                        kind, ctx, forms[int(el[1]) - 1]), replay,
                        {'label': el, 'executed': got[el],
                         'expected': pending[el]})
            rows = (O.bookkeeping_dump('default')['evolutions'] or [])
            mine = sorted((a, l) for (a, l, v) in rows if a == 'va')
            if mine != [('va', 'e1'), ('va', 'e2')]:
                add('C08|recorded-labels-differ-from-reference|'
                    'fresh-install:%s' % ctx, replay, {'got': mine})
            B.reset_globals()
            t2 = O.Tracer('default')
            r2 = D.d2_all(tracer=t2) if driver == 'D2' else D.d3(tracer=t2)
            stats['upgrade_runs'] += 1
            again = form_executions(forms, t2.effects())
            if not r2.ok or any(again.values()):
                add('C08|second-run-executes-again|fresh-install:%s' % ctx,
                    replay, {'executed': again,
                             'error': str(r2.exc)[:200]})


def work(task):
    if task[0] in ('split', 'fresh'):
        stats = {'events': 0, 'states': 0, 'upgrade_runs': 0,
                 'failed_runs': 0, 'command_events': 0, 'max_depth': 0,
                 'samples': [], 'dedup_hits': 0, 'split_batch_scenarios': 1}
        viol = {}

        def add(fp, replay, detail):
            ent = viol.get(fp)
            if ent is None:
                viol[fp] = {'count': 1, 'exemplar': replay,
                            'detail': detail, 'size': len(S.canon(replay))}
            else:
                ent['count'] += 1
        if task[0] == 'fresh':
            fresh_install_scenario(task[1], add, stats)
        else:
            split_batch_scenario(task[1], add, stats)
        return stats, viol
    variant, depth, first = task
    hist = project_history(variant)
    hist.variant = variant
    ex = Explorer(hist, depth, first)
    ex.run()
    return ex.stats, ex.viol


def run(tier, seed, confirm=True):
    from vf import bootstrap
    bootstrap.setup()
    t0 = time.time()
    depth = 4 if tier == 'quick' else 6
    tasks = []
    for variant in ('A', 'B'):
        hist = project_history(variant)
        ex = Explorer(hist, depth)
        for ev in ex.enabled(0, {'rec': {}, 'exec': {}}, False):
            tasks.append((variant, depth, list(ev)))
    for i in range(len(SPLIT_DEPS)):
        tasks.append(('split', i, None))
    for i in range(len(FORMS) ** 2):
        tasks.append(('fresh', i, None))
    total = {}
    coll = findings.Collector(PROP)
    for stats, viol in explore.run_tasks('vf.checks.c08.work', tasks,
                                         seed=seed):
        common.merge_stats(total, stats)
        coll.merge(viol)
    coverage = {
        'states': total['states'],
        'transitions': total['events'],
        'traces_validated_against_impl': total['upgrade_runs'],
        'samples': total['samples'][:3],
        'exhaustive': True,
        'history_depth': depth,
        'upgrade_runs': total['upgrade_runs'],
        'failed_runs': total['failed_runs'],
        'mark_wipe_command_events': total['command_events'],
        'dedup_hits': total['dedup_hits'],
        'projects': 'two apps sharing evolution labels, two project '
                    'variants, three code versions each; plus %d '
                    'split-batch scenarios (pending evolutions of one app '
                    'separated by migration dependencies) x 2 start '
                    'states; plus %d evolution-form pairs (Python / raw '
                    'SQL mutation / SQL file) x {empty database, v0, v1} x '
                    '{Evolver, evolve command}' % (len(SPLIT_DEPS),
                                                   len(FORMS) ** 2),
    }
    print('C08 %s: depth %d, %d events, %d states, %d upgrade runs (%d '
          'failed), %d mark/wipe commands' % (
              tier, depth, total['events'], total['states'],
              total['upgrade_runs'], total['failed_runs'],
              total['command_events']))
    return common.finish(PROP, tier, seed, 'model_checking', coverage, coll,
                         t0, confirm=confirm, assumptions=[
        '"executed at most once" is counted per label since it was last '
        'wiped (wiping is the documented way to make an evolution run '
        'again)',
        'an upgrade that fails after a wipe/mark/fault event is not itself '
        'a violation; only its bookkeeping is checked'])


def replay(path):
    doc = common.load_replay(path)
    r = doc['replay']
    if r.get('scenario') == 'split-batches':
        found = {}
        split_batch_scenario(r['deps_index'],
                             lambda fp, rp, d: found.setdefault(fp, d),
                             {'upgrade_runs': 0, 'failed_runs': 0})
        for fp, d in found.items():
            print('  %s %s' % (fp, str(d)[:300]))
        if doc['fingerprint'] in found:
            print('REPRODUCED %s' % doc['fingerprint'])
            return 1
        print('NOT-REPRODUCED')
        return 0
    if r.get('scenario') == 'fresh-install':
        found = {}
        fresh_install_scenario(r['forms_index'],
                               lambda fp, rp, d: found.setdefault(fp, d),
                               {'upgrade_runs': 0, 'failed_runs': 0})
        for fp, d in found.items():
            print('  %s %s' % (fp, str(d)[:300]))
        if doc['fingerprint'] in found:
            print('REPRODUCED %s' % doc['fingerprint'])
            return 1
        print('NOT-REPRODUCED')
        return 0
    hist = project_history(r['variant'])
    hist.variant = r['variant']
    ex = Explorer(hist, len(r['events']), None)
    # replay exactly this event list
    j, image, ref, has_db = 0, b'', {'rec': {}, 'exec': {}}, False
    path = []
    for ev in r['events']:
        B.restore(image, 'default')
        hist.install(max(j, ev[1]) if ev[0] == 'I' else j)
        B.reset_globals()
        path = path + [list(ev)]
        j, ref, ok = ex.apply(tuple(ev), j, ref, path, has_db)
        print('event %s -> version %d, recorded %s' % (ev, j, ref['rec']))
        if not ok:
            break
        image = B.snapshot('default')
        has_db = has_db or ev[0] in ('U', 'UA', 'F', 'UP')
    for fp, ent in ex.viol.items():
        print('  %s %s' % (fp, str(ent['detail'])[:400]))
    if doc['fingerprint'] in ex.viol:
        print('REPRODUCED %s' % doc['fingerprint'])
        return 1
    print('NOT-REPRODUCED')
    return 0
