"""C13 - hinted evolution text is loadable and means what the hint meant.

(a) every hinted evolution of the C05 pair space, rendered by the real
    `evolve --hint` pipeline (Evolver(hinted=True) -> EvolveAppTask
    .get_evolution_content()), exec-ed in a fresh namespace exactly as an
    evolution module is imported, compared with the hinted mutations
    (str, simulated signature, generated SQL);
(b) directly constructed mutations whose attribute values range over the
    value grammar (vf/values.py), rendered through get_evolution_content()."""
import time

from vf import spec as S, starts, mutlang as ML, alphabet as AL
from vf import refstate as R, materialize as MZ, bootstrap as B
from vf import drivers as D, values as V, findings, explore
from vf.checks import common, c05, c03

PROP = 'C13'


def load_text(text):
    """Import the text the way an evolution module would be."""
    ns = {'__name__': 'va.evolutions.hinted_evolution'}
    exec(compile(text, '<hinted evolution>', 'exec'), ns)
    return ns['MUTATIONS']


def render(app_module, mutations):
    from django_evolution.evolve import EvolveAppTask
    task = EvolveAppTask.__new__(EvolveAppTask)
    task._mutations = list(mutations)
    task.app = app_module
    return task.get_evolution_content()


def sql_of(sig, label, mutations):
    """SQL an AppMutator generates for the mutations (not executed)."""
    from django_evolution.db.state import DatabaseState
    from django_evolution.mutators import AppMutator
    from django_evolution.utils.sql import SQLExecutor
    sig = sig.clone()
    mutator = AppMutator(app_label=label, project_sig=sig,
                         database_state=DatabaseState('default', scan=True),
                         database='default')
    mutator.run_mutations(mutations)
    sql = mutator.to_sql()
    with SQLExecutor(database='default') as ex:
        out = ex.run_sql(sql, capture=True, execute=False)
    return out, sig


def compare_loaded(orig, loaded, old_sig, label, add, replay, shape,
                   check_sql=True):
    if len(orig) != len(loaded):
        add('C13|loaded-mutation-count-differs|%s' % shape, replay,
            {'orig': [str(m) for m in orig],
             'loaded': [str(m) for m in loaded]})
        return
    for a, b in zip(orig, loaded):
        if type(a) is not type(b) or str(a) != str(b):
            add('C13|loaded-mutation-differs|%s' % shape, replay,
                {'orig': str(a)[:300], 'loaded': str(b)[:300]})
            return
    if not check_sql:
        return
    try:
        sql_a, sig_a = sql_of(old_sig, label, orig)
    except Exception:
        return      # the hint itself cannot be applied: C05/C01 business
    try:
        sql_b, sig_b = sql_of(old_sig, label, loaded)
    except Exception as e:
        add('C13|loaded-mutations-fail-where-hint-works|%s|%s' % (
            type(e).__name__, shape), replay, {'error': str(e)[:300]})
        return
    if sql_a != sql_b:
        add('C13|loaded-sql-differs|%s' % shape, replay,
            {'orig': sql_a[:6], 'loaded': sql_b[:6]})
    ok, d = R.sig_equal(sig_a, sig_b)
    if not ok:
        add('C13|loaded-signature-differs|%s' % shape, replay,
            {'diff': d})


def check_pair(kind, name, old_p, new_p, add, stats):
    """`evolve --hint` for a database at old_p and models at new_p."""
    from django_evolution.evolve import Evolver
    from django_evolution.placeholders import BasePlaceholder
    stats['pairs'] += 1
    img = D.baseline(old_p, rows=None)
    MZ.install(new_p)
    B.restore(img, 'default')
    B.reset_globals()
    replay = {'kind': kind, 'name': name, 'old': old_p, 'new': new_p}
    try:
        ev = Evolver(hinted=True)
        ev.queue_evolve_all_apps()
        contents = list(ev.iter_evolution_content())
    except Exception as e:
        stats['hint_fails'] += 1
        return      # C05's business (hint cannot be computed/simulated)
    old_sig = D.stored_signature()
    for task, text in contents:
        stats['texts'] += 1
        orig = list(task._mutations)
        shape = c05.hint_shape({task.app_label: orig})
        placeholders = [m for m in orig if isinstance(
            getattr(m, 'initial', None), BasePlaceholder)]
        if placeholders:
            # a value that needs user input: the text must carry the
            # explicit placeholder and must refuse to load or to run
            stats['with_placeholder'] += 1
            if '<<USER VALUE REQUIRED>>' not in text:
                add('C13|placeholder-not-rendered|%s' % shape, replay,
                    {'text': text[:600]})
            try:
                loaded = load_text(text)
                sql_of(old_sig, task.app_label, loaded)
                refused = False
            except Exception:
                refused = True
            if not refused:
                add('C13|placeholder-does-not-refuse|%s' % shape, replay,
                    {'text': text[:600]})
            continue
        try:
            loaded = load_text(text)
        except Exception as e:
            add('C13|text-does-not-load|%s|%s' % (type(e).__name__, shape),
                replay, {'error': str(e)[:300], 'text': text[:600]})
            continue
        stats['compared'] += 1
        compare_loaded(orig, loaded, old_sig, task.app_label, add, replay,
                       shape)


def constructed_mutations(depth):
    """(label, [mutation]) over the value grammar, applicable to the narrow
    Item{a,b} model."""
    from django.db import models
    from django_evolution import mutations as MU
    out = []
    for n, q in V.q_trees(depth):
        out.append(('indexes.condition:' + n, [MU.ChangeMeta(
            'Item', 'indexes', [{'fields': ['a'], 'name': 'ix_c',
                                 'condition': q}])]))
        out.append(('constraints.check:' + n, [MU.ChangeMeta(
            'Item', 'constraints', [{'type': models.CheckConstraint,
                                     'name': 'ck', 'check': q}])]))
    for n, ex in V.expressions():
        out.append(('indexes.expressions:' + n, [MU.ChangeMeta(
            'Item', 'indexes', [{'expressions': ex, 'name': 'ix_e'}])]))
    from django.db.models import Deferrable
    out.append(('constraints.deferrable', [MU.ChangeMeta(
        'Item', 'constraints', [{'type': models.UniqueConstraint,
                                 'name': 'uqd', 'fields': ('a',),
                                 'deferrable': Deferrable.DEFERRED}])]))
    out.append(('constraints.unique-tuple', [MU.ChangeMeta(
        'Item', 'constraints', [{'type': models.UniqueConstraint,
                                 'name': 'uq', 'fields': ('a', 'b')}])]))
    out.append(('constraints.unique-list', [MU.ChangeMeta(
        'Item', 'constraints', [{'type': models.UniqueConstraint,
                                 'name': 'uq', 'fields': ['a', 'b']}])]))
    for s in V.STRINGS:
        out.append(('AddField.initial:%r' % s, [MU.AddField(
            'Item', 'n1', models.CharField, initial=s, max_length=20)]))
        if s:
            out.append(('AddField.db_column:%r' % s, [MU.AddField(
                'Item', 'n1', models.IntegerField, null=True,
                db_column=s)]))
            out.append(('RenameField.db_column:%r' % s, [MU.RenameField(
                'Item', 'a', 'n1', db_column=s)]))
            out.append(('RenameModel.db_table:%r' % s, [MU.RenameModel(
                'Item', 'Zed', db_table=s)]))
    for v in (0, -1, 2147483647, True, False, 1.5):
        out.append(('AddField.initial:%r' % (v,), [MU.AddField(
            'Item', 'n1', models.IntegerField if not isinstance(v, float)
            else models.FloatField, initial=v)]))
    out.append(('ChangeField.type', [MU.ChangeField(
        'Item', 'a', field_type=models.TextField, initial=None)]))
    out.append(('ChangeField.null+initial', [MU.ChangeField(
        'Item', 'b', initial=3, null=False)]))
    out.append(('ChangeField.max_length', [MU.ChangeField(
        'Item', 'a', initial=None, max_length=30)]))
    out.append(('AddField.fk', [MU.AddField(
        'Item', 'n1', models.ForeignKey, null=True,
        related_model='va.Item')]))
    out.append(('AddField.m2m', [MU.AddField(
        'Item', 'n1', models.ManyToManyField, related_model='va.Item')]))
    out.append(('ChangeMeta.unique_together', [MU.ChangeMeta(
        'Item', 'unique_together', [('a', 'b')])]))
    out.append(('ChangeMeta.index_together', [MU.ChangeMeta(
        'Item', 'index_together', [('a', 'b')])]))
    out.append(('DeleteField+DeleteModel', [MU.DeleteField('Item', 'b'),
                                            MU.DeleteModel('Item')]))
    out.append(('RenameAppLabel', [MU.RenameAppLabel(
        'va', 'vz', legacy_app_label='va')]))
    # custom field classes: one defined inside the app's own package, one
    # in a third-party package, both at once
    local, vendor = custom_field_classes()
    out.append(('AddField.custom-field:project-local', [MU.AddField(
        'Item', 'n1', local, initial='t', max_length=12)]))
    out.append(('AddField.custom-field:third-party', [MU.AddField(
        'Item', 'n1', vendor, initial='t', max_length=12)]))
    out.append(('AddField.custom-field:both', [
        MU.AddField('Item', 'n1', local, initial='t', max_length=12),
        MU.AddField('Item', 'n2', vendor, initial='t', max_length=12),
        MU.AddField('Item', 'n3', models.IntegerField, null=True)]))
    # an initial value next to null=True (existing rows are back-filled)
    out.append(('AddField.null+initial', [MU.AddField(
        'Item', 'n1', models.IntegerField, initial=5, null=True)]))
    out.append(('AddField.null+initial-str', [MU.AddField(
        'Item', 'n1', models.CharField, initial='x', null=True,
        max_length=10)]))
    # a relation renamed with an explicit column that equals the new field
    # name (the default would be <name>_id)
    out.append(('RenameField.relation-db_column', [MU.RenameField(
        'Item', 'r', 'n1', db_column='n1')]))
    out.append(('RenameField.relation-default-column', [MU.RenameField(
        'Item', 'r', 'n1')]))
    # an attribute going back to None
    out.append(('ChangeField.attr-to-None', [MU.ChangeField(
        'Item', 't', initial=None, max_length=None)]))
    # fields of project-specific classes ADDED TO THE MODELS: the mutations
    # are the ones Diff.evolution() hints for (stored signature, stored
    # signature + the field); none of them needs a value from the user
    for which in DIFF_ADDED:
        out.append(('Diff.add-field:' + which, None))
    return out


DIFF_ADDED = ('m2m-subclass', 'fk-subclass-null', 'char-subclass-null',
              'o2o-subclass-null')


def diff_hinted(which, old_sig):
    """Mutations hinted by Diff for one added field of a custom class."""
    from django.db import models
    from django_evolution.diff import Diff
    from django_evolution.signature import FieldSignature
    base, attrs, related = {
        'm2m-subclass': (models.ManyToManyField, {}, 'va.Item'),
        'fk-subclass-null': (models.ForeignKey, {'null': True}, 'va.Item'),
        'o2o-subclass-null': (models.OneToOneField, {'null': True},
                              'va.Item'),
        'char-subclass-null': (models.CharField,
                               {'null': True, 'max_length': 12}, None),
    }[which]
    cls = custom_class('va.fields', 'X' + base.__name__, base)
    new_sig = old_sig.clone()
    new_sig.get_app_sig('va').get_model_sig('Item').add_field_sig(
        FieldSignature(field_name='n1', field_type=cls, field_attrs=attrs,
                       related_model=related))
    return list(Diff(old_sig, new_sig).evolution().get('va', []))


def custom_class(modname, clsname, base):
    import sys
    import types
    mod = sys.modules.get(modname)
    if mod is None:
        parent = modname.split('.')[0]
        if parent not in sys.modules:
            pm = types.ModuleType(parent)
            pm.__path__ = []
            sys.modules[parent] = pm
        mod = types.ModuleType(modname)
        sys.modules[modname] = mod
    if not hasattr(mod, clsname):
        setattr(mod, clsname, type(clsname, (base,),
                                   {'__module__': modname}))
    return getattr(mod, clsname)


def custom_field_classes():
    """TokenField in va.fields (same top-level package as the app) and
    CodeField in vendorlib.fields; the modules are registered so that the
    import lines of a rendered evolution resolve."""
    import sys
    import types
    from django.db import models
    out = []
    for modname, clsname in (('va.fields', 'TokenField'),
                             ('vendorlib.fields', 'CodeField')):
        mod = sys.modules.get(modname)
        if mod is None or not hasattr(mod, clsname):
            parent = modname.split('.')[0]
            if parent not in sys.modules:
                pm = types.ModuleType(parent)
                pm.__path__ = []
                sys.modules[parent] = pm
            mod = types.ModuleType(modname)
            cls = type(clsname, (models.CharField,),
                       {'__module__': modname})
            setattr(mod, clsname, cls)
            sys.modules[modname] = mod
        out.append(getattr(mod, clsname))
    return out


def check_constructed(label, muts, add, stats):
    import sys
    stats['texts'] += 1
    start = c03.narrow_start()
    if label.startswith('RenameField.relation-'):
        start = S.clone(start)
        start['apps'][0]['models'][0]['fields'].append(
            S.F('r', 'FK', to='va.Item', null=True))
    if label == 'ChangeField.attr-to-None':
        # a TextField that carries a max_length which the change removes
        start = S.clone(start)
        start['apps'][0]['models'][0]['fields'].append(
            S.F('t', 'Text', max_length=20, null=True))
    img = D.baseline(start, rows=None)
    mods = MZ.install(start)
    if 'custom-field' in label:
        # MZ.install re-creates the va package: register va.fields again
        import sys as _sys
        _sys.modules.pop('va.fields', None)
        local, vendor = custom_field_classes()
        for m in muts:
            ft = getattr(m, 'field_type', None)
            if ft is not None and ft.__name__ == 'TokenField':
                m.field_type = local
    B.restore(img, 'default')
    old_sig = D.stored_signature()
    replay = {'kind': 'constructed', 'label': label}
    if label.startswith('Diff.add-field:'):
        import sys as _sys
        _sys.modules.pop('va.fields', None)
        try:
            muts = diff_hinted(label.split(':', 1)[1], old_sig)
        except Exception as e:
            add('C13|hint-raises|%s|%s' % (type(e).__name__, label), replay,
                {'error': str(e)[:300]})
            return
        kind = label
    else:
        kind = c06kind(label)
    try:
        text = render(mods['va'], muts)
    except Exception as e:
        add('C13|render-raises|%s|%s' % (type(e).__name__, kind), replay,
            {'error': str(e)[:300]})
        return
    try:
        loaded = load_text(text)
    except Exception as e:
        add('C13|text-does-not-load|%s|%s' % (type(e).__name__, kind),
            replay, {'error': str(e)[:300], 'text': text[:500]})
        return
    stats['compared'] += 1
    compare_loaded(muts, loaded, old_sig, 'va', add, replay, kind)


def c06kind(label):
    from vf.checks import c06
    return c06.kind_of(label)


def work(task):
    kind, payload = task
    stats = {'pairs': 0, 'texts': 0, 'compared': 0, 'with_placeholder': 0,
             'hint_fails': 0, 'samples': []}
    viol = {}

    def add(fp, replay, detail):
        size = len(S.canon(replay))
        ent = viol.get(fp)
        if ent is None:
            viol[fp] = {'count': 1, 'exemplar': replay, 'detail': detail,
                        'size': size}
        else:
            ent['count'] += 1
            if size < ent['size']:
                ent.update(exemplar=replay, detail=detail, size=size)
    if kind == 'fm':
        n1, f1 = c05.FM[payload]
        for n2, f2 in c05.FM:
            if n1 != n2:
                check_pair('field', '%s->%s' % (n1, n2), c05.fm_project(f1),
                           c05.fm_project(f2), add, stats)
        stats['samples'].append('field %s -> *' % n1)
    elif kind == 'mm':
        n1, m1 = c05.MMX[payload]
        for n2, m2 in c05.MMX:
            if n1 != n2:
                check_pair('meta', '%s->%s' % (n1, n2), c05.mm_project(m1),
                           c05.mm_project(m2), add, stats)
        stats['samples'].append('meta %s -> *' % n1)
    elif kind == 'succ':
        name, project, level = payload
        for label, mj in AL.enabled(project, level=level):
            p2 = ML.apply(project, label, mj)
            check_pair('successor', '%s+%s' % (name, mj[0]), project, p2,
                       add, stats)
        stats['samples'].append('successors of %s' % name)
    else:
        depth, lo, hi = payload
        items = constructed_mutations(depth)[lo:hi]
        for label, muts in items:
            check_constructed(label, muts, add, stats)
        if items:
            stats['samples'].append(items[0][0])
    return stats, viol


def run(tier, seed, confirm=True):
    from vf import bootstrap
    bootstrap.setup()
    t0 = time.time()
    depth = 1 if tier == 'quick' else 2
    tasks = [('fm', i) for i in range(len(c05.FM))] + \
        [('mm', i) for i in range(len(c05.MMX))]
    n = len(constructed_mutations(depth))
    chunk = max(1, n // 16)
    for lo in range(0, n, chunk):
        tasks.append(('constructed', (depth, lo, min(n, lo + chunk))))
    level = 'lite' if tier == 'quick' else 'full'
    for name, p in starts.s1(fieldsets=('V1', 'V3')) + starts.s2():
        tasks.append(('succ', (name, p, level)))
    total = {}
    coll = findings.Collector(PROP)
    for stats, viol in explore.run_tasks('vf.checks.c13.work', tasks,
                                         seed=seed):
        common.merge_stats(total, stats)
        coll.merge(viol)
    coverage = {
        'evaluations': total['texts'],
        'distinct_nontrivial': total['compared'] + total['with_placeholder'],
        'rule': 'every hinted evolution text produced by the real '
                'Evolver(hinted=True) pipeline for the C05 pair space '
                '(field x field, Meta x Meta, start spec x depth-1 '
                'successor) plus %d directly constructed mutations over the '
                'value grammar; each text is exec-ed in a fresh namespace and '
                'the loaded MUTATIONS are compared with the hinted ones '
                '(str, simulated signature, generated SQL); non-trivial = '
                'texts that were loaded and compared or carried a '
                'placeholder' % n,
        'samples': total['samples'][:5],
        'exhaustive': True,
        'pairs': total['pairs'],
        'pairs_whose_hint_cannot_be_computed': total['hint_fails'],
        'texts_with_placeholder': total['with_placeholder'],
    }
    print('C13 %s: %d pairs, %d texts (%d compared, %d with placeholder)' % (
        tier, total['pairs'], total['texts'], total['compared'],
        total['with_placeholder']))
    return common.finish(PROP, tier, seed, 'exploration', coverage, coll,
                         t0, confirm=confirm, assumptions=[
        'the text is exec-ed with only its own import lines available',
        'hints that cannot be computed or applied at all belong to C05/C01'])


def replay(path):
    doc = common.load_replay(path)
    r = doc['replay']
    found = {}

    def add(fp, replay, detail):
        found[fp] = detail
    stats = {'pairs': 0, 'texts': 0, 'compared': 0, 'with_placeholder': 0,
             'hint_fails': 0}
    if r['kind'] == 'constructed':
        for depth in (1, 2):
            for label, muts in constructed_mutations(depth):
                if label == r['label']:
                    check_constructed(label, muts, add, stats)
                    break
            if stats['texts']:
                break
    else:
        check_pair(r['kind'], r['name'], r['old'], r['new'], add, stats)
    for fp, d in found.items():
        print('  %s %s' % (fp, str(d)[:500]))
    if doc['fingerprint'] in found:
        print('REPRODUCED %s' % doc['fingerprint'])
        return 1
    print('NOT-REPRODUCED')
    return 0
