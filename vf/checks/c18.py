"""C18 - batched changes rewrite each table once, never more than unbatched.
Decided on the statement traces of the C03 path enumeration (see c03.py)."""
from vf.checks import c03


def run(tier, seed, confirm=True):
    return c03.run(tier, seed, confirm=confirm, prop='C18')


def replay(path):
    return c03.replay(path, prop='C18')
