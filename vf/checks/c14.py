"""C14 - the SQL preview is exactly what an execution would run, and the
generated SQL and hints are deterministic.

For every pending upgrade of the generated histories:
 (1) `evolve --sql` output == the statements `evolve --execute` issues
     between applying_evolution/applied_evolution (params substituted);
 (2) order-choice exploration: the name `set` is shadowed in the modules
     that feed SQL/hint generation by a subclass whose iteration order the
     explorer controls; every single deviation (all permutations of sets of
     <= 4 elements) and, in thorough, every pair of deviations is run and
     the preview/hint text must not change;
 (3) seed sweep: the same cases run in separate interpreters with different
     PYTHONHASHSEED values; the per-case digests must be identical."""
import hashlib
import json
import os
import subprocess
import sys
import time

from vf import spec as S, mutlang as ML, observe as O, bootstrap as B
from vf import drivers as D, materialize as MZ, engine_b as EB
from vf import orderctl, findings, explore, acceptor
from vf.spec import F, M, A, P
from vf.checks import common, c03, c04

PROP = 'C14'
VERIF = common.VERIF


def meta_histories():
    v0 = P(A('va', [M('Item', [F('a', 'Char', max_length=20), F('b', 'Int'),
                               F('c', 'Int', null=True),
                               F('d', 'Int', null=True)])]))
    out = []
    for prop in ('unique_together', 'index_together'):
        out.append(('meta-' + prop, v0, [
            ('va', 'e1', [['ChangeMeta', 'Item', prop,
                           [['a', 'b'], ['b', 'c'], ['c', 'd']]]]),
            ('va', 'e2', [['ChangeMeta', 'Item', prop,
                           [['a', 'c'], ['b', 'd'], ['a', 'd'],
                            ['c', 'd']]]]),
        ]))
    out.append(('meta-indexes', v0, [
        ('va', 'e1', [['ChangeMeta', 'Item', 'indexes',
                       [{'fields': ['a'], 'name': 'i1'},
                        {'fields': ['b'], 'name': 'i2'},
                        {'fields': ['c', '-d'], 'name': 'i3'}]]]),
        ('va', 'e2', [['ChangeMeta', 'Item', 'indexes',
                       [{'fields': ['d'], 'name': 'i4'},
                        {'fields': ['b'], 'name': 'i2'}]],
                      ['ChangeMeta', 'Item', 'unique_together',
                       [['a', 'b'], ['c', 'd']]]]),
    ]))
    out.append(('meta-mixed', v0, [
        ('va', 'e1', [['AddField', 'Item', 'n1', 'Int', {'db_index': True},
                       7],
                      ['AddField', 'Item', 'n2', 'Char',
                       {'max_length': 10, 'unique': True, 'null': True},
                       None],
                      ['ChangeMeta', 'Item', 'unique_together',
                       [['a', 'b'], ['b', 'c']]]]),
        ('va', 'e2', [['DeleteField', 'Item', 'd'],
                      ['ChangeMeta', 'Item', 'index_together',
                       [['a', 'c'], ['b', 'c']]]]),
    ]))
    # raw SQL (cannot be simulated) next to ordinary mutations
    out.append(('raw-sql', v0, [
        ('va', 'e1', [['AddField', 'Item', 'n1', 'Int', {'null': True},
                       None],
                      ['SQLRaw', 'fill_n1',
                       ['UPDATE va_item SET n1 = 5;']]]),
        ('va', 'e2', [['ChangeField', 'Item', 'a', {'max_length': 30},
                       None, None]]),
    ]))
    # a condition with a SET of strings (its rendering must not depend on
    # hashing)
    out.append(('meta-set-of-strings', v0, [
        ('va', 'e1', [['ChangeMeta', 'Item', 'constraints', [
            {'type': 'check', 'name': 'ck_set', 'check': [
                ['a__in', {'set': ['alpha', 'beta', 'gamma', 'delta',
                                   'epsilon', 'zeta']}]]}]]]),
        ('va', 'e2', [['ChangeMeta', 'Item', 'indexes', [
            {'fields': ['b'], 'name': 'ix_set', 'condition': [
                ['a__in', {'set': ['p1', 'p2', 'p3', 'p4', 'p5']}]]}]]]),
    ]))
    # an evolution shipped as SQL files: the generic and the
    # database-specific file both exist (the database-specific one wins),
    # next to Python evolutions
    out.append(('sql-files', v0, [
        ('va', 'e1', [['SQLFile', {
            'e1.sql': "UPDATE va_item SET c = 1;\n",
            'default_e1.sql': "UPDATE va_item SET c = 2;\n"}]]),
        ('va', 'e2', [['AddField', 'Item', 'n1', 'Int', {'null': True},
                       None]]),
    ]))
    # raw SQL with percent signs and a %s look-alike (no parameters: the
    # text must reach the database untouched)
    out.append(('raw-sql-percent', v0, [
        ('va', 'e1', [['SQLRaw', 'percent',
                       ["UPDATE va_item SET a = '100%% wool' WHERE a LIKE "
                        "'%x';",
                        "UPDATE va_item SET a = 'is %s' WHERE a = '';"]]]),
        ('va', 'e2', [['AddField', 'Item', 'n1', 'Int', {'null': True},
                       None]]),
    ]))
    # string parameters with percent signs, quotes and backslashes (initial
    # values are bound as parameters when executed and written into the
    # statement by the preview)
    out.append(('param-percent', v0, [
        ('va', 'e1', [['AddField', 'Item', 'n1', 'Char', {'max_length': 20},
                       '50%'],
                      ['AddField', 'Item', 'n2', 'Char', {'max_length': 20},
                       '%s of 100%%']]),
        ('va', 'e2', [['ChangeField', 'Item', 'b', {'null': False}, 7,
                       None],
                      ['AddField', 'Item', 'n3', 'Char', {'max_length': 20},
                       "it's 5%"]]),
    ]))
    return out


def two_app_histories():
    """Two apps with pending evolutions in one run, the first app's being
    signature-only (no SQL)."""
    v0 = P(A('va', [M('Item', [F('a', 'Char', max_length=20),
                               F('b', 'Int', null=True)])]),
           A('vab', [M('Thing', [F('t', 'Char', max_length=20)])]))
    out = []
    for name, first in (
            ('sig-only-rename', ['RenameField', 'Item', 'b', 'bb',
                                 {'db_column': 'b'}]),
            ('sig-only-model-rename', ['RenameModel', 'Item', 'Zed',
                                       'va_item']),
            ('with-sql', ['AddField', 'Item', 'n1', 'Int', {'null': True},
                          None])):
        out.append(('two-app-' + name, v0, [
            ('va', 'e1', [first]),
            ('vab', 'e1', [['AddField', 'Thing', 'n1', 'Int',
                            {'db_index': True}, 3]]),
        ]))
    return out


def cases_for(tier):
    """(name, v0, steps, i, k)"""
    from vf import bootstrap, starts
    bootstrap.setup()
    out = []
    for name, v0, steps in meta_histories():
        for i, k in ((0, 1), (0, 2), (1, 2)):
            out.append((name, v0, steps, i, k))
    for name, v0, steps in two_app_histories():
        out.append((name, v0, steps, 0, 2))
    # several models removed from one app at once (the hint lists one
    # DeleteModel per model: their order must not depend on hashing)
    vdel = P(A('va', [M('Item', [F('a', 'Char', max_length=20)])] + [
        M(n, [F('x', 'Int', null=True)])
        for n in ('Alpha', 'Bravo', 'Charlie', 'Delta')]))
    out.append(('delete-models', vdel, [
        ('va', 'e1', [['DeleteModel', n] for n in
                      ('Alpha', 'Bravo', 'Charlie', 'Delta')])], 0, 1))
    # a model that owns several many-to-many relations is deleted (one
    # table per relation goes with it: in which order?)
    vm2m = P(A('va', [
        M('Item', [F('a', 'Char', max_length=20)]),
        M('Hub', [F('x', 'Int', null=True)] + [
            F(n, 'M2M', to='va.Item', related_name='+')
            for n in ('tags', 'links', 'marks', 'refs')])]))
    out.append(('delete-model-with-m2ms', vm2m, [
        ('va', 'e1', [['DeleteModel', 'Hub']])], 0, 1))
    hs = c04.gen_histories(c03.narrow_start(), 2, 'lite', c04.KINDS)
    stride = 4 if tier == 'quick' else 1
    for n, steps in enumerate(hs):
        if n % stride:
            continue
        for i, k in ((0, 2), (1, 2)):
            out.append(('narrow-h2#%d' % n, c03.narrow_start(), steps, i, k))
    if tier != 'quick':
        s3a = dict(starts.s3())['S3a']
        hs = c04.gen_histories(s3a, 2, 'lite', c04.KINDS)
        for n, steps in enumerate(hs):
            if n % 5 == 0:
                out.append(('two-app-h2#%d' % n, s3a, steps, 0, 2))
    return out


_img_cache = {}


def prepare(v0, steps, i):
    """Database image after a fresh install at V_i (rows R2)."""
    hist = EB.History(v0, steps)
    key = S.canon([v0, steps, i])
    if key not in _img_cache:
        hist.install(i)
        B.fresh_db('default')
        res = EB.upgrade('D2')
        if not res.ok:
            _img_cache[key] = None
        else:
            from vf import rows as RW
            RW.populate(hist.specs[i], 'R2', 'default')
            _img_cache[key] = B.snapshot('default')
        if len(_img_cache) > 300:
            _img_cache.clear()
            return prepare(v0, steps, i)
    return hist, _img_cache[key]


def preview(hist, image, k, hint=False):
    hist.install(k)
    B.restore(image, 'default')
    B.reset_globals()
    if hint:
        res = D.d3(execute=False, hint=True)
    else:
        res = D.d3(execute=False, compile_sql=True)
    return res


def preview_lines(stdout):
    return [l for l in stdout.splitlines()
            if l.strip() and not l.startswith('--') and
            not l.startswith('Evolution could not be simulated')]


def check_preview_vs_execute(case, stats, add):
    name, v0, steps, i, k = case
    hist, image = prepare(v0, steps, i)
    if image is None:
        stats['skipped'] += 1
        return None
    res = preview(hist, image, k)
    replay = {'v0': v0, 'steps': steps, 'i': i, 'k': k}
    desc = c04.abstract_jumps(hist, [i, k])
    # a preview is a preview: the database must be exactly as before
    if B.snapshot('default') != image:
        B.restore(image, 'default')
        before = (O.schema_dump('default'), O.row_dump('default'),
                  O.bookkeeping_dump('default'))
        preview(hist, image, k)
        after = (O.schema_dump('default'), O.row_dump('default'),
                 O.bookkeeping_dump('default'))
        if before != after:
            add('C14|preview-modifies-the-database|%s' % desc, replay,
                {'tables': [t for t in after[0] if after[0][t] !=
                            before[0].get(t)][:5]})
    if not res.ok:
        stats['preview_rejected'] += 1
        return None
    lines = preview_lines(res.stdout)
    # execute from the same snapshot
    hist.install(k)
    B.restore(image, 'default')
    B.reset_globals()
    seq = [0]
    tracer = O.Tracer('default', seq=seq)
    with O.SignalLog(seq) as log:
        res2 = D.d3(tracer=tracer)
    stats['executions'] += 1
    if not res2.ok:
        stats['execute_failed'] += 1
        return lines
    spans = []
    evs = log.events
    for idx, (sq, nm, p) in enumerate(evs):
        if nm == 'applying_evolution':
            ends = [e[0] for e in evs[idx + 1:] if e[1] == 'applied_evolution']
            spans.append((sq, min(ends) if ends else 10 ** 9))
    executed = []
    for (sq, sql, params, f) in tracer.statements:
        if not any(a < sq < b for a, b in spans):
            continue
        if not O.is_effect(sql) or acceptor.is_bookkeeping(sql):
            continue
        executed.append(O.render(sql, params).strip())
    norm = lambda l: l.strip().rstrip(';')
    a = [norm(l) for l in lines]
    b = [norm(l) for l in executed]
    stats['compared'] += 1
    if a != b:
        kind = 'order-differs' if sorted(a) == sorted(b) else \
            'statements-differ'
        add('C14|preview-differs-from-execution|%s|%s' % (kind, desc),
            replay, {'preview': a[:8], 'executed': b[:8]})
    # the same on the level of effects: the previewed text, run verbatim on
    # the same snapshot by a plain sqlite3 cursor, must leave the database
    # that `evolve --execute` left
    skip = c03.SKIP_TABLES
    after_execute = (O.schema_dump('default', skip=skip),
                     O.row_dump('default', skip=skip))
    B.restore(image, 'default')
    from django.db import connections
    conn = connections['default']
    conn.ensure_connection()
    raw = conn.connection
    try:
        # like the executor, which suspends constraint checking while a
        # table is rebuilt
        raw.commit()
        raw.execute('PRAGMA foreign_keys = OFF')
        for l in lines:
            raw.execute(l)
        raw.commit()
        raw.execute('PRAGMA foreign_keys = ON')
        after_preview = (O.schema_dump('default', skip=skip),
                         O.row_dump('default', skip=skip))
    except Exception as e:
        after_preview = ('preview text does not run', str(e)[:200])
        try:
            raw.rollback()
            raw.execute('PRAGMA foreign_keys = ON')
        except Exception:
            pass
    stats['effect_comparisons'] = stats.get('effect_comparisons', 0) + 1
    if after_preview != after_execute:
        what = 'schema' if after_preview[0] != after_execute[0] else 'rows'
        if after_preview[0] == 'preview text does not run':
            what = 'preview-text-does-not-run'
        add('C14|preview-run-verbatim-leaves-a-different-database|%s|%s' % (
            what, desc), replay,
            {'preview': str(after_preview)[:300],
             'execute': str(after_execute)[:300]})
    return lines


def check_other_database(case, stats, add):
    """The same comparison for `--database other` while the default
    database is already at the target version: the preview must be computed
    from the stored signature of the database it is asked about."""
    name, v0, steps, i, k = case
    hist = EB.History(v0, steps)
    hist.install(i)
    for al in ('default', 'other'):
        B.fresh_db(al)
        B.reset_globals()
        if not EB.upgrade('D2', db=al).ok:
            stats['skipped'] += 1
            return
    from vf import rows as RW
    RW.populate(hist.specs[i], 'R2', 'other')
    hist.install(k)
    B.reset_globals()
    if not EB.upgrade('D2', db='default').ok:
        stats['skipped'] += 1
        return
    image = B.snapshot('other')
    B.reset_globals()
    res = D.d3(execute=False, compile_sql=True, db='other')
    replay = {'v0': v0, 'steps': steps, 'i': i, 'k': k, 'db': 'other'}
    desc = c04.abstract_jumps(hist, [i, k])
    if not res.ok:
        stats['preview_rejected'] += 1
        return
    lines = preview_lines(res.stdout)
    B.restore(image, 'other')
    B.reset_globals()
    seq = [0]
    tracer = O.Tracer('other', seq=seq)
    with O.SignalLog(seq) as log:
        res2 = D.d3(tracer=tracer, db='other')
    stats['executions'] += 1
    if not res2.ok:
        stats['execute_failed'] += 1
        return
    spans = []
    evs = log.events
    for idx, (sq, nm, p) in enumerate(evs):
        if nm == 'applying_evolution':
            ends = [e[0] for e in evs[idx + 1:] if e[1] == 'applied_evolution']
            spans.append((sq, min(ends) if ends else 10 ** 9))
    executed = []
    for (sq, sql, params, f) in tracer.statements:
        if not any(a < sq < b for a, b in spans):
            continue
        if not O.is_effect(sql) or acceptor.is_bookkeeping(sql):
            continue
        executed.append(O.render(sql, params).strip())
    norm = lambda l: l.strip().rstrip(';')
    a = [norm(l) for l in lines]
    b = [norm(l) for l in executed]
    stats['compared'] += 1
    stats['other_database_comparisons'] = stats.get(
        'other_database_comparisons', 0) + 1
    if a != b:
        kind = 'order-differs' if sorted(a) == sorted(b) else \
            'statements-differ'
        add('C14|preview-differs-from-execution|%s|%s|database=other' % (
            kind, desc), replay, {'preview': a[:8], 'executed': b[:8]})
    for al in ('default', 'other'):
        B.fresh_db(al)


def order_exploration(case, stats, add, pairs):
    name, v0, steps, i, k = case
    hist, image = prepare(v0, steps, i)
    if image is None:
        return
    replay = {'v0': v0, 'steps': steps, 'i': i, 'k': k}
    desc = c04.abstract_jumps(hist, [i, k])
    orderctl.install()
    try:
        for mode in ('sql', 'hint'):
            def run(plan):
                orderctl.start(plan)
                try:
                    res = preview(hist, image, k, hint=(mode == 'hint'))
                finally:
                    sizes = orderctl.stop()
                stats['order_runs'] += 1
                return (res.stdout if res.ok else 'ERR:' + str(res.exc)), \
                    sizes
            base, sizes = run({})
            stats['choice_points'] += len(sizes)
            stats['max_choice_points'] = max(stats['max_choice_points'],
                                             len(sizes))
            plans = []
            for cp, size in enumerate(sizes):
                for alt in range(1, orderctl.n_alternatives(size)):
                    plans.append({cp: alt})
            if pairs:
                cps = list(range(len(sizes)))
                for x in range(len(cps)):
                    for y in range(x + 1, len(cps)):
                        plans.append({cps[x]: 1, cps[y]: 1})
            for plan in plans:
                out, _sz = run(plan)
                if out != base:
                    add('C14|output-depends-on-set-iteration-order|%s|%s'
                        % (mode, desc), replay,
                        {'plan': {str(a): b for a, b in plan.items()},
                         'base': preview_lines(base)[:8],
                         'got': preview_lines(out)[:8]})
                    break
    finally:
        orderctl.uninstall()


def digest_case(case):
    name, v0, steps, i, k = case
    hist, image = prepare(v0, steps, i)
    if image is None:
        return name, i, k, 'no-baseline'
    h = hashlib.sha1()
    # a Python set inside a condition reaches the SQL through Django's own
    # compiler, which iterates it in hash order: for that case only the hint
    # text (django-evolution's rendering of the set) is digested
    modes = (True,) if name == 'meta-set-of-strings' else (False, True)
    for hint in modes:
        res = preview(hist, image, k, hint=hint)
        h.update((res.stdout if res.ok else 'ERR:' + str(res.exc))
                 .encode('utf-8'))
    return name, i, k, h.hexdigest()


def work(task):
    mode, case, pairs = task
    stats = {'cases': 1, 'skipped': 0, 'preview_rejected': 0,
             'executions': 0, 'execute_failed': 0, 'compared': 0,
             'order_runs': 0, 'choice_points': 0, 'max_choice_points': 0,
             'samples': []}
    viol = {}

    def add(fp, replay, detail):
        size = len(S.canon(replay))
        ent = viol.get(fp)
        if ent is None:
            viol[fp] = {'count': 1, 'exemplar': replay, 'detail': detail,
                        'size': size}
        else:
            ent['count'] += 1
            if size < ent['size']:
                ent.update(exemplar=replay, detail=detail, size=size)
    if mode == 'digest':
        return digest_case(case)
    check_preview_vs_execute(case, stats, add)
    if case[0].startswith(('meta-', 'raw-sql', 'two-app-with-sql')) or \
            case[0].endswith(('#0', '#16', '#48', '#96', '#160')):
        check_other_database(case, stats, add)
    order_exploration(case, stats, add, pairs)
    stats['samples'].append({'case': case[0], 'from': case[3],
                             'to': case[4]})
    return stats, viol


def digests_main(tier):
    """Entry point of the per-seed subprocess."""
    cases = cases_for(tier)
    out = {}
    for name, i, k, dg in explore.run_tasks(
            'vf.checks.c14.work', [('digest', c, False) for c in cases],
            seed=0):
        out['%s|%d|%d' % (name, i, k)] = dg
    print('DIGESTS ' + json.dumps(out, sort_keys=True))


def run(tier, seed, confirm=True):
    t0 = time.time()
    cases = cases_for(tier)
    total = {}
    coll = findings.Collector(PROP)
    tasks = [('check', c, tier != 'quick') for c in cases]
    for stats, viol in explore.run_tasks('vf.checks.c14.work', tasks,
                                         seed=seed, progress=100):
        common.merge_stats(total, stats)
        coll.merge(viol)
    # ---- seed sweep in separate interpreters
    seeds = [0, 1, 2, 3] if tier == 'quick' else list(range(16))
    by_seed = {}
    for s_ in seeds:
        env = dict(os.environ, PYTHONHASHSEED=str(s_), VERIF_TIER=tier)
        p = subprocess.run(
            ['/venv/bin/python', '-c',
             'import sys; sys.path.insert(0, %r); '
             'from vf.checks import c14; c14.digests_main(%r)'
             % (VERIF, tier)],
            capture_output=True, text=True, env=env, cwd=VERIF)
        line = [l for l in p.stdout.splitlines() if l.startswith('DIGESTS ')]
        if not line:
            sys.stderr.write(p.stdout[-2000:] + p.stderr[-2000:])
            raise explore.HarnessError('seed sweep subprocess failed')
        by_seed[s_] = json.loads(line[0][8:])
    ref = by_seed[seeds[0]]
    differing = sorted(k for k in ref
                       if any(by_seed[s_].get(k) != ref[k] for s_ in seeds))
    order_dependent = set()
    for fp, ent in coll.by_fp.items():
        if fp.startswith('C14|output-depends-on-set-iteration-order'):
            order_dependent.add(fp.split('|')[3])
    cases_by_key = {'%s|%d|%d' % (c[0], c[3], c[4]): c for c in cases}
    uncaptured = []
    for key in differing:
        c = cases_by_key[key]
        hist = EB.History(c[1], c[2])
        desc = c04.abstract_jumps(hist, [c[3], c[4]])
        coll.add('C14|output-depends-on-hash-seed|%s' % desc,
                 {'v0': c[1], 'steps': c[2], 'i': c[3], 'k': c[4],
                  'seeds': seeds},
                 {'digests': {str(s_): by_seed[s_][key] for s_ in seeds}})
        if desc not in order_dependent:
            uncaptured.append(key)
    coverage = {
        'states': max(1, total['cases']),
        'transitions': total['order_runs'] + total['executions'],
        'traces_validated_against_impl': total['compared'],
        'samples': total['samples'][:3],
        'exhaustive': True,
        'pending_upgrades': total['cases'],
        'preview_vs_execute_compared': total['compared'],
        'preview_rejected_by_gate': total['preview_rejected'],
        'order_choice_runs': total['order_runs'],
        'order_choice_points_total': total['choice_points'],
        'max_choice_points_in_one_run': total['max_choice_points'],
        'seed_sweep': {'seeds': seeds, 'cases': len(ref),
                       'cases_with_differing_output': len(differing),
                       'differing_without_order_dependence_found':
                           uncaptured[:5]},
    }
    print('C14 %s: %d pending upgrades, %d preview/execute comparisons, %d '
          'order-choice runs (%d choice points), seed sweep over %s: %d '
          'cases differ' % (tier, total['cases'], total['compared'],
                            total['order_runs'], total['choice_points'],
                            seeds, len(differing)))
    return common.finish(PROP, tier, seed, 'model_checking', coverage, coll,
                         t0, confirm=confirm, assumptions=[
        'iteration order is controlled for sets created through the name '
        '`set` in the listed modules; set literals/comprehensions and '
        'dictionary order are covered only by the finite seed sweep',
        'the environment choice explored is set iteration order (every '
        'single deviation; pairs in thorough)'])


def replay(path):
    doc = common.load_replay(path)
    r = doc['replay']
    steps = [(l, el, mjs) for l, el, mjs in r['steps']]
    case = ('replay', r['v0'], steps, r['i'], r['k'])
    found = {}

    def add(fp, replay, detail):
        found[fp] = detail
    stats = {'cases': 1, 'skipped': 0, 'preview_rejected': 0,
             'executions': 0, 'execute_failed': 0, 'compared': 0,
             'order_runs': 0, 'choice_points': 0, 'max_choice_points': 0}
    if 'hash-seed' in doc['fingerprint']:
        outs = {}
        for s_ in r.get('seeds', [0, 1, 2, 3]):
            env = dict(os.environ, PYTHONHASHSEED=str(s_))
            code = ('import sys, json; sys.path.insert(0, %r); '
                    'from vf import bootstrap; bootstrap.setup(); '
                    'from vf.checks import c14; '
                    'print("DG", c14.digest_case(json.loads(%r))[3])'
                    % (VERIF, json.dumps(case)))
            p = subprocess.run(['/venv/bin/python', '-c', code],
                               capture_output=True, text=True, env=env)
            outs[s_] = [l for l in p.stdout.splitlines()
                        if l.startswith('DG')]
        print(outs)
        if len(set(str(v) for v in outs.values())) > 1:
            print('REPRODUCED %s' % doc['fingerprint'])
            return 1
        print('NOT-REPRODUCED')
        return 0
    if r.get('db') == 'other':
        check_other_database(case, stats, add)
    else:
        check_preview_vs_execute(case, stats, add)
        order_exploration(case, stats, add, True)
    for fp, d in found.items():
        print('  %s %s' % (fp, str(d)[:600]))
    if doc['fingerprint'] in found:
        print('REPRODUCED %s' % doc['fingerprint'])
        return 1
    print('NOT-REPRODUCED')
    return 0
