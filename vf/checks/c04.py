"""C04 - all upgrade paths converge: fresh install, stepwise, direct.

Engine B.  For every generated history V0..Vn (each step one evolution in
the app's SEQUENCE, discovered the normal way) and every start point i, the
database is installed fresh at V_i through the real Evolver, rows are
inserted, and then *every* chain of later versions i < k1 < k2 < .. < n is
upgraded through (memoised on (version, canonical database state)).  All
final states must agree and a further upgrade must be a no-op."""
import os
import time

from vf import spec as S, mutlang as ML, observe as O, bootstrap as B
from vf import refstate as R, drivers as D, alphabet as AL, rows as RW
from vf import engine_b as EB, findings, explore, materialize as MZ
from vf.checks import common, c03

PROP = 'C04'
KINDS = ('AddField', 'DeleteField', 'RenameField', 'ChangeField',
         'ChangeMeta')


def abstract_jumps(hist, chain):
    """chain = [i, k1, k2, ...]: abstract mutation lists per jump."""
    parts = []
    flat = []
    for a, b in zip(chain, chain[1:]):
        seg = []
        for (label, el, mjs) in hist.steps[a:b]:
            seg += [(label, mj) for mj in mjs]
        flat.append(seg)
    # one abstraction over the whole path so identities are consistent
    whole = [s for seg in flat for s in seg]
    text = c03.abstract_path(whole).split(' ; ') if whole else []
    pos = 0
    for (a, b), seg in zip(zip(chain, chain[1:]), flat):
        part = ' ; '.join(text[pos:pos + len(seg)])
        # a single jump whose evolutions net to no model change (the
        # commands then see "no upgrade required" - C04-F04)
        if len(chain) > 2 and seg and S.canon_unordered(hist.specs[a]) == \
                S.canon_unordered(hist.specs[b]):
            part += ' {jump-nets-to-no-change}'
        parts.append(part)
        pos += len(seg)
    text = ' || '.join(parts)
    if c03.has_name_reuse(whole):
        text += '|name-reuse'
    if S.canon_unordered(hist.specs[chain[0]]) == \
            S.canon_unordered(hist.specs[chain[-1]]) and whole:
        text += '|net-no-change'
    return text


class HistoryRun(object):
    def __init__(self, hist, driver, rows='R2'):
        self.hist = hist
        self.driver = driver
        self.rows = rows
        self.stats = {'histories': 1, 'upgrade_runs': 0, 'paths': 0,
                      'states': 0, 'finals': 0, 'noop_checks': 0,
                      'skipped_histories_c01': 0, 'data_conflicts': 0,
                      'skipped_jumps_c03': 0,
                      'jumps_kept_divergence_not_known_c03': 0,
                      'samples': []}
        self.viol = {}
        self.memo = {}
        self.seen_states = set()

    def add(self, fp, chain, detail):
        replay = {'history': self.hist.describe(), 'driver': self.driver,
                  'rows': self.rows, 'chain': chain}
        size = len(S.canon(replay))
        ent = self.viol.get(fp)
        if ent is None:
            self.viol[fp] = {'count': 1, 'exemplar': replay,
                             'detail': detail, 'size': size}
        else:
            ent['count'] += 1
            if size < ent['size']:
                ent.update(exemplar=replay, detail=detail, size=size)

    # -- domain ------------------------------------------------------------
    def domain(self):
        """Stepwise D1 chain must be C01-clean; records which jumps are
        C03-clean at AppMutator level (batched == stepwise)."""
        h = self.hist
        ent = R.fresh(h.v0)
        B.restore(ent['image'], 'default')
        RW.populate(h.v0, self.rows, 'default')
        image = B.snapshot('default')
        sig = ent['sig']
        self.sw = [(image, sig)]
        labels = h.labels()
        for j, (label, el, mjs) in enumerate(h.steps):
            B.restore(image, 'default')
            B.reset_globals()
            res = D.d1(R.load_sig(sig), [(label, mj) for mj in mjs])
            if not res.ok:
                return False
            entj = R.fresh(h.specs[j + 1])
            ok, _d = R.sig_equal(res.sig, R.load_sig(entj['sig']),
                                 ignore_upgrade_method=True)
            if not ok or O.schema_dump('default') != entj['schema']:
                return False
            image, sig = B.snapshot('default'), res.sig.serialize()
            self.sw.append((image, sig))
        self.clean = {}
        for i in range(h.n):
            for k in range(i + 1, h.n + 1):
                self.clean[(i, k)] = True
            if i + 2 > h.n:
                continue
            # rows as the exploration has them: inserted at start point i
            ent_i = R.fresh(h.specs[i])
            B.restore(ent_i['image'], 'default')
            RW.populate(h.specs[i], self.rows, 'default')
            img_i, sig_i = B.snapshot('default'), ent_i['sig']
            stepwise = {i: (img_i, sig_i)}
            img, sg = img_i, sig_i
            for t in range(i, h.n):
                label, el, mjs = h.steps[t]
                B.restore(img, 'default')
                B.reset_globals()
                r1 = D.d1(R.load_sig(sg), [(label, mj) for mj in mjs])
                if not r1.ok:
                    break
                img, sg = B.snapshot('default'), r1.sig.serialize()
                stepwise[t + 1] = (img, sg)
            for k in range(i + 2, h.n + 1):
                if k not in stepwise:
                    continue
                B.restore(img_i, 'default')
                B.reset_globals()
                steps = []
                for (label, el, mjs) in h.steps[i:k]:
                    steps += [(label, mj) for mj in mjs]
                res = D.d1(R.load_sig(sig_i), steps)
                good = res.ok
                if good:
                    got = (O.schema_dump('default'), O.row_dump('default'))
                    B.restore(stepwise[k][0], 'default')
                    want = (O.schema_dump('default'), O.row_dump('default'))
                    good = got == want
                if good:
                    good, _d = R.sig_equal(res.sig,
                                           R.load_sig(stepwise[k][1]))
                if good:
                    # the same jump on the rows inserted at V0 and carried
                    # along (what a chain that started earlier sees)
                    B.restore(self.sw[i][0], 'default')
                    B.reset_globals()
                    res = D.d1(R.load_sig(self.sw[i][1]), steps)
                    good = res.ok
                    if good:
                        got = (O.schema_dump('default'),
                               O.row_dump('default'))
                        B.restore(self.sw[k][0], 'default')
                        good = got == (O.schema_dump('default'),
                                       O.row_dump('default'))
                if not good and not self.delegated_to_c03(i, steps):
                    # the divergence is not a recorded C03 finding: the jump
                    # stays in and is judged by this check's own oracle
                    good = True
                    self.stats['jumps_kept_divergence_not_known_c03'] += 1
                self.clean[(i, k)] = good
        return True

    _c03_cache = {}

    def delegated_to_c03(self, i, steps):
        """True iff C03's own oracle (W1 vs W2 on this very path, minimised
        and fingerprinted) explains the batched-vs-stepwise divergence by
        known C03 findings only."""
        h = self.hist
        key = S.canon([h.specs[i], steps, self.rows])
        if key in self._c03_cache:
            return self._c03_cache[key]
        out = False
        try:
            pr = c03.PathRunner(h.specs[i], self.rows, ('W2',),
                                labels=tuple(h.labels()))
            w1 = pr.w1_full([list(s) for s in steps])
            if w1 is not None:
                w1_obs, rb, spec, _idents = w1
                pr.run_ways([list(s) for s in steps], spec, w1_obs, rb, None)
                fps = list(pr.viol3)
                out = bool(fps) and all(
                    findings.known_entry('C03', fp) is not None
                    for fp in fps)
        except ML.Disabled:
            out = False
        self._c03_cache[key] = out
        return out

    # -- exploration ---------------------------------------------------------
    def run(self):
        h = self.hist
        if not self.domain():
            self.stats['skipped_histories_c01'] += 1
            return
        finals = []     # (start, chain, obs)
        for i in range(h.n + 1):
            h.install(i)
            B.fresh_db('default')
            res = EB.upgrade(self.driver)
            self.stats['upgrade_runs'] += 1
            if not res.ok:
                what = res.exc_type
                if what == 'CommandError':
                    what += ':' + c03.norm_msg(str(res.exc))[:80]
                self.add('C04|fresh-install-fails|%s|%s' % (
                    what, self.driver), [i],
                    {'error': str(res.exc)[:300]})
                continue
            RW.populate(h.specs[i], self.rows, 'default')
            image = B.snapshot('default')
            for chain, obs in self.rec(i, image):
                finals.append((i, [i] + chain, obs))
        # ---- convergence oracle
        self.stats['paths'] += len(finals)
        ref = None
        for start, chain, obs in finals:
            if start == h.n:
                ref = obs
        by_start = {}
        for start, chain, obs in finals:
            desc = abstract_jumps(h, chain)
            if ref is not None and obs['schema'] != ref['schema']:
                from vf import engine_a as EA
                kinds = sorted(set('%s:%s' % (dk, own) for dk, own, _w in
                                   EA.schema_discrepancies(
                                       obs['schema'], ref['schema'],
                                       h.specs[-1], h.specs[-1])))
                self.add('C04|schema-differs-from-fresh-install|%s|%s|%s' % (
                    '+'.join(kinds), desc, self.driver), chain,
                    {'kinds': kinds})
            first = by_start.setdefault(start, (chain, obs))
            if obs['rows'] != first[1]['rows']:
                self.add('C04|rows-differ-between-paths|%s vs %s|%s' % (
                    abstract_jumps(h, first[0]), desc, self.driver), chain,
                    {'a': str(first[1]['rows'])[:300],
                     'b': str(obs['rows'])[:300]})
            expected = sorted((l, el) for (l, el, _m) in h.steps
                              if S.get_app(h.specs[-1], l) is not None)
            mine = [e for e in obs['evolutions']
                    if e[0] in h.labels()]
            if mine != expected:
                self.add('C04|recorded-evolutions-wrong|%s|%s' % (
                    desc, self.driver), chain,
                    {'expected': expected, 'got': mine})
            if obs['evolution_dups']:
                self.add('C04|evolution-recorded-twice|%s|%s' % (
                    desc, self.driver), chain, {})
            if not obs['sig_ok']:
                self.add('C04|stored-signature-differs-from-models|%s|%s|%s'
                         % ('+'.join(c03.norm_diff(obs['sig_diff'][0]) +
                                     c03.norm_diff(obs['sig_diff'][1]))[:120],
                            desc, self.driver), chain,
                         {'diff': obs['sig_diff']})
            for clause, detail in obs['noop']:
                self.add('C04|%s|%s|%s' % (clause, desc, self.driver),
                         chain, detail)
        if len(self.stats['samples']) < 1 and finals:
            self.stats['samples'].append(
                {'history': h.describe(), 'chains': [c for _s, c, _o in
                                                      finals][:8]})

    def rec(self, j, image):
        """All (chain suffix, final observation) reachable from code version
        j installed+upgraded with database `image`."""
        h = self.hist
        B.restore(image, 'default')
        key = EB.canonical_state(j)
        if key in self.memo:
            return self.memo[key]
        self.seen_states.add(key)
        self.stats['states'] = len(self.seen_states)
        out = []
        if j == h.n:
            h.install(j)
            B.restore(image, 'default')
            obs = EB.final_observation()
            ok, diffs = EB.stored_vs_current()
            obs['sig_ok'], obs['sig_diff'] = ok, diffs
            obs['noop'] = self.noop_check(image)
            self.stats['finals'] += 1
            out.append(([], obs))
        else:
            for k in range(j + 1, h.n + 1):
                if not self.clean.get((j, k), True):
                    self.stats['skipped_jumps_c03'] += 1
                    continue
                h.install(k)
                B.restore(image, 'default')
                # evolutions of earlier versions that this database never
                # recorded (left behind by an earlier run of this chain):
                # they are pending again in this run
                recorded = set((a, l) for (a, l, _v) in (
                    O.bookkeeping_dump('default')['evolutions'] or []))
                stale = [st for st in h.steps[:j]
                         if (st[0], st[1]) not in recorded]
                res = EB.upgrade(self.driver)
                self.stats['upgrade_runs'] += 1
                if not res.ok:
                    msg = str(getattr(res.exc, 'detailed_error', None) or
                              res.exc)
                    if 'CHECK constraint failed' in str(res.exc) or \
                            'UNIQUE constraint failed' in str(res.exc):
                        # the inserted rows conflict with the new rule
                        self.stats['data_conflicts'] += 1
                        continue
                    jumps = abstract_jumps(h, [j, k])
                    if stale:
                        jumps += '|after-%d-earlier-evolutions-were-left-' \
                            'unrecorded' % len(stale)
                    self.add('C04|upgrade-fails|%s|%s|%s' % (
                        c03.norm_msg(msg), jumps,
                        self.driver), [j, k],
                        {'error': str(res.exc)[:400],
                         'stderr': getattr(res, 'stderr', '')[:300]})
                    continue
                img2 = B.snapshot('default')
                for chain, obs in self.rec(k, img2):
                    out.append(([k] + chain, obs))
        self.memo[key] = out
        return out

    def noop_check(self, image):
        """A further upgrade must report nothing to do and execute no SQL."""
        from django_evolution.evolve import Evolver
        out = []
        self.stats['noop_checks'] += 1
        B.restore(image, 'default')
        B.reset_globals()
        try:
            ev = Evolver()
            ev.queue_evolve_all_apps()
            req = ev.get_evolution_required()
            diff = ev.diff_evolutions()
            if req:
                out.append(('second-run-reports-evolution-required', {}))
            if not diff.is_empty():
                out.append(('second-run-diff-not-empty',
                            {'diff': str(diff)[:300]}))
        except Exception as e:
            out.append(('second-run-crashes:%s' % type(e).__name__,
                        {'error': str(e)[:300]}))
        if self.driver in ('D3', 'D4'):
            B.restore(image, 'default')
            res = EB.upgrade(self.driver)
            if not res.ok:
                out.append(('second-run-command-fails:%s' % res.exc_type,
                            {'error': str(res.exc)[:300]}))
            elif res.statements:
                out.append(('second-run-executes-sql',
                            {'statements': [s for s, _p in
                                            res.statements][:5]}))
        return out


# ----------------------------------------------------------- enumeration

def gen_histories(v0, depth, level, kinds, labels=None, per_evolution=1):
    """All histories of `depth` single-mutation evolutions over the enabled
    alphabet (reference-valid by construction)."""
    out = []

    def rec(spec, steps, deleted):
        if len(steps) == depth:
            out.append(list(steps))
            return
        for label, mj in AL.enabled(spec, level=level, kinds=kinds,
                                    reuse_names=tuple(deleted)):
            if labels and label not in labels:
                continue
            spec2 = ML.apply(spec, label, mj)
            el = 'e%d' % (len(steps) + 1)
            rec(spec2, steps + [(label, el, [mj])],
                deleted + ([mj[2]] if mj[0] in ('DeleteField', 'RenameField')
                           else []))
    rec(v0, [], [])
    return out


def dep_histories():
    """Hand-written two-app histories with cross-app evolution
    dependencies (an evolution of va must follow / precede an evolution of
    vab that may have been applied by an earlier run)."""
    v0 = S.P(S.A('va', [S.M('Item', [S.F('a', 'Char', max_length=20)])]),
             S.A('vab', [S.M('Thing', [S.F('t', 'Char', max_length=20)])]))
    add_b1 = ['AddField', 'Thing', 'n1', 'Int', {'null': True}, None]
    add_a1 = ['AddField', 'Item', 'n1', 'Int', {'null': True}, None]
    add_a2 = ['AddField', 'Item', 'n2', 'Int', {'db_index': True}, 4]
    add_b2 = ['AddField', 'Thing', 'n2', 'Char', {'max_length': 10,
                                                   'null': True}, None]
    out = []
    for kind in ('AFTER_EVOLUTIONS', 'BEFORE_EVOLUTIONS'):
        for target in (('vab', 'b1'), 'vab'):
            out.append(('dep-%s-%s' % (kind.split('_')[0].lower(),
                                       'app' if target == 'vab'
                                       else 'label'),
                        v0,
                        [('vab', 'b1', [add_b1]), ('va', 'a1', [add_a1]),
                         ('va', 'a2', [add_a2])],
                        {('va', 'a1'): {kind: [target]}}))
    out.append(('dep-after-label-later-b', v0,
                [('vab', 'b1', [add_b1]), ('va', 'a1', [add_a1]),
                 ('vab', 'b2', [add_b2])],
                {('va', 'a1'): {'AFTER_EVOLUTIONS': [('vab', 'b1')]}}))
    # no dependency at all, but both apps call their evolution the same
    out.append(('dep-none-shared-label', v0,
                [('vab', 'e1', [add_b1]), ('va', 'e1', [add_a1]),
                 ('vab', 'e2', [add_b2])], {}))
    out.append(('dep-app-level', v0,
                [('vab', 'b1', [add_b1]), ('va', 'a1', [add_a1]),
                 ('va', 'a2', [add_a2])],
                {('va', None): {'AFTER_EVOLUTIONS': ['vab']}}))
    return out


def work(task):
    name, v0, steps, driver = task[:4]
    deps = EB.deps_from_json(task[4]) if len(task) > 4 else None
    hist = EB.History(v0, steps, deps)
    hr = HistoryRun(hist, driver)
    hr.run()
    return name, hr.stats, hr.viol


def tasks_for(tier):
    from vf import bootstrap, starts
    bootstrap.setup()
    tasks = []
    only = os.environ.get('VERIF_ONLY')

    def add(name, v0, depth, level, kinds, drivers, stride=1):
        if only and only not in name:
            return
        hs = gen_histories(v0, depth, level, kinds)
        for i, steps in enumerate(hs):
            for d in drivers:
                if d != 'D2' and i % stride:
                    continue
                tasks.append(('%s#%d' % (name, i), v0, steps, d))
    narrow = c03.narrow_start()
    two = c03.two_model_start()
    # cross-app dependencies between evolutions (all drivers, both tiers)
    for name, v0d, stepsd, depsd in dep_histories():
        if only and only not in name:
            continue
        dj = EB.History(v0d, stepsd, depsd).describe().get('deps', [])
        for d in ('D2', 'D3', 'D4'):
            tasks.append((name, v0d, stepsd, d, dj))
    # an app whose label differs from its package name
    pkg = S.clone(narrow)
    pkg['apps'][0]['package'] = 'vapkg'
    add('narrow-pkg-h2', pkg, 2, 'lite', ('AddField', 'ChangeField',
                                          'DeleteField'),
        ('D2', 'D3'), 7 if tier == 'quick' else 2)
    if tier == 'quick':
        add('narrow-h2', narrow, 2, 'lite', KINDS, ('D2', 'D3'), 1)
        add('narrow-h2', narrow, 2, 'lite', KINDS, ('D4',), 10)
        add('two-model-h2', two, 2, 'lite', KINDS + ('RenameModel',
                                                     'DeleteModel'),
            ('D2',))
        # full menus (type changes, second initial values, db_column) for
        # the add-then-change histories that the optimiser folds together
        add('narrow-addchg-full-h2', narrow, 2, 'full',
            ('AddField', 'ChangeField'), ('D2',))
    else:
        add('narrow-h3', narrow, 3, 'lite', KINDS, ('D2',), 1)
        add('narrow-h3', narrow, 3, 'lite', KINDS, ('D3', 'D4'), 10)
        add('narrow-h2', narrow, 2, 'full', KINDS, ('D2', 'D3', 'D4'), 1)
        add('two-model-h2', two, 2, 'full', None, ('D2', 'D3', 'D4'), 5)
        s3a = dict(starts.s3())['S3a']
        add('two-app-h2', s3a, 2, 'lite', KINDS, ('D2', 'D3'), 5)
    return tasks


def run(tier, seed, confirm=True):
    t0 = time.time()
    tasks = tasks_for(tier)
    total = {}
    coll = findings.Collector(PROP)
    for name, stats, viol in explore.run_tasks('vf.checks.c04.work', tasks,
                                               seed=seed, progress=100):
        common.merge_stats(total, stats)
        coll.merge(viol)
    names = {}
    for t in tasks:
        k = (t[0].split('#')[0], t[3])
        names[k] = names.get(k, 0) + 1
    coverage = {
        'states': max(1, total['states']),
        'transitions': total['upgrade_runs'],
        'traces_validated_against_impl': total['paths'],
        'samples': total['samples'][:2],
        'exhaustive': True,
        'histories': total['histories'],
        'histories_skipped_step_not_c01_clean':
            total['skipped_histories_c01'],
        'jumps_skipped_divergence_is_known_c03_finding':
            total['skipped_jumps_c03'],
        'jumps_kept_divergence_not_known_c03':
            total['jumps_kept_divergence_not_known_c03'],
        'final_states_checked': total['finals'],
        'noop_rerun_checks': total['noop_checks'],
        'tasks': {'%s/%s' % k: v for k, v in sorted(names.items())},
        'rows': 'R2 inserted right after the fresh install at each start '
                'point',
    }
    print('C04 %s: %d histories (%d outside the domain), %d upgrade runs, '
          '%d complete paths, %d final states' % (
              tier, total['histories'], total['skipped_histories_c01'],
              total['upgrade_runs'], total['paths'], total['finals']))
    return common.finish(PROP, tier, seed, 'model_checking', coverage, coll,
                         t0, confirm=confirm, assumptions=[
        'histories whose single steps are not C01-clean are outside the '
        'domain; a jump whose batched AppMutator run differs from stepwise '
        'is left out only when C03\'s oracle, run on that very path, '
        'explains the divergence by recorded C03 findings alone - any other '
        'divergence stays in and is judged here',
        'D3/D4 (management commands) run on every k-th history '
        '(deterministic stride), D2 on all'])


def replay(path):
    doc = common.load_replay(path)
    r = doc['replay']
    steps = [(l, el, mjs) for l, el, mjs in r['history']['steps']]
    hist = EB.History(r['history']['v0'], steps,
                      EB.deps_from_json(r['history'].get('deps')))
    hr = HistoryRun(hist, r['driver'], r.get('rows', 'R2'))
    hr.run()
    for fp, ent in hr.viol.items():
        print('  %s: %s' % (fp, str(ent['detail'])[:500]))
    if doc['fingerprint'] in hr.viol:
        print('REPRODUCED %s' % doc['fingerprint'])
        return 1
    print('NOT-REPRODUCED %s' % doc['fingerprint'])
    return 0
