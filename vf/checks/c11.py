"""C11 - renames and deletions keep every cross-reference consistent.

Engine A BFS from S2/S3 starts over RenameModel, RenameAppLabel,
RenameField, DeleteField, DeleteModel, DeleteApplication (+ AddField to
create fresh references); invariants on the implementation's simulated
signature and on the real database after every transition."""
import time

from vf import spec as S, starts, engine_a as EA, findings, explore
from vf import observe as O
from vf.checks import common

PROP = 'C11'
KINDS = ('RenameModel', 'RenameAppLabel', 'RenameField', 'DeleteField',
         'DeleteModel', 'DeleteApplication', 'AddField')


def walk_refs(sig):
    """(app_id, model, field, related_model) for every relation."""
    for app_sig in sig.app_sigs:
        for model_sig in app_sig.model_sigs:
            for field_sig in model_sig.field_sigs:
                if field_sig.related_model:
                    yield (app_sig.app_id, model_sig.model_name,
                           field_sig.field_name, field_sig.related_model)


def deleted_on_path(path):
    out = set()
    for label, mj in path:
        if mj[0] == 'DeleteModel':
            out.add('%s.%s' % (label, mj[1]))
        elif mj[0] == 'DeleteApplication':
            out.add(label + '.*')
    return out


def judge(node, step, tr):
    out = []
    label, mj = step
    kind = mj[0]
    if tr.res is None or not tr.res.ok or tr.res.sig is None:
        return out       # crashes / SQL errors belong to C01
    sig = tr.res.sig
    deleted = deleted_on_path(node.path + [step])
    for app_id, model, field, rel in walk_refs(sig):
        al, mn = rel.split('.', 1)
        a = sig.get_app_sig(al)
        ok = a is not None and a.get_model_sig(mn) is not None
        if not ok and rel not in deleted and (al + '.*') not in deleted:
            out.append(('C11|dangling-reference|%s' % kind,
                        {'ref': '%s.%s.%s -> %s' % (app_id, model, field,
                                                    rel)}))
            break
    if kind == 'RenameModel':
        old = '%s.%s' % (label, mj[1])
        for app_id, model, field, rel in walk_refs(sig):
            if rel == old:
                out.append(('C11|stale-reference-after-rename|RenameModel',
                            {'ref': '%s.%s.%s -> %s' % (app_id, model,
                                                        field, rel)}))
                break
    if kind == 'RenameAppLabel':
        for app_id, model, field, rel in walk_refs(sig):
            if rel.split('.', 1)[0] == mj[1]:
                out.append(('C11|stale-reference-after-rename|'
                            'RenameAppLabel',
                            {'ref': '%s.%s.%s -> %s' % (app_id, model,
                                                        field, rel)}))
                break
    # database side
    tables = set(O.list_tables('default'))
    for t, d in (tr.schema or {}).items():
        for frm, target, to in d['fks']:
            if target not in tables:
                out.append(('C11|fk-to-missing-table|%s' % kind,
                            {'fk': '%s.%s -> %s.%s' % (t, frm, target, to)}))
                break
            tcols = [c[0] for c in O.table_dump(target)['columns']]
            if to not in tcols:
                out.append(('C11|fk-to-missing-column|%s' % kind,
                            {'fk': '%s.%s -> %s.%s' % (t, frm, target, to)}))
                break
    if tr.fk_violations:
        out.append(('C11|foreign-key-check|%s' % kind,
                    {'rows': tr.fk_violations[:3]}))
    seen, uniq = set(), []
    for fp, d in out:
        if fp not in seen:
            seen.add(fp)
            uniq.append((fp, d))
    return uniq


def evolver_relabel_scenarios(coll, stats):
    """The production way of renaming an app label: the app keeps its
    package, its AppConfig gets a new label and its evolution says
    RenameAppLabel(old, new, legacy_app_label=old); run through the real
    Evolver (and through the evolve command) with relations into the app
    from another app.  Afterwards the stored signature knows the app under
    the new label only, every relation names the new label, and the
    database foreign keys validate."""
    from vf.spec import F, M, A, P
    from vf import materialize as MZ, bootstrap as B, drivers as D
    from vf import rows as RW
    from django_evolution.mutations import RenameAppLabel
    author = M('Author', [F('name', 'Char', max_length=20)])
    for driver in ('D2', 'D3'):
        for keep_tables in (True,):
            v0 = P(A('va', [S.clone(author)]),
                   A('vab', [M('Book', [
                       F('title', 'Char', max_length=20),
                       F('author', 'FK', to='va.Author', null=True),
                       F('editors', 'M2M', to='va.Author')])]))
            MZ.install(v0, evolutions={
                'va': {'SEQUENCE': [], 'modules': {}},
                'vab': {'SEQUENCE': [], 'modules': {}}})
            B.fresh_db('default')
            B.reset_globals()
            r = D.d2_all()
            replay = {'scenario': 'evolver-relabel', 'driver': driver}
            stats['evolver_scenarios'] = stats.get('evolver_scenarios',
                                                   0) + 1
            if not r.ok:
                coll.add('C11|evolver-relabel|setup-fails|%s' % r.exc_type,
                         replay, {'error': str(r.exc)[:200]})
                continue
            RW.populate(v0, 'R2', 'default')
            # same package, new label; the tables keep their names
            renamed = A('vz', [M('Author', [F('name', 'Char',
                                              max_length=20)],
                                 db_table='va_author')])
            renamed['package'] = 'va'
            v1 = P(renamed, A('vab', [M('Book', [
                F('title', 'Char', max_length=20),
                F('author', 'FK', to='vz.Author', null=True),
                F('editors', 'M2M', to='vz.Author')])]))
            MZ.install(v1, evolutions={
                'vz': {'SEQUENCE': ['relabel'], 'modules': {'relabel': {
                    'MUTATIONS': [RenameAppLabel(
                        'va', 'vz', legacy_app_label='va')]}}},
                'vab': {'SEQUENCE': [], 'modules': {}}})
            B.reset_globals()
            res = D.d2_all() if driver == 'D2' else D.d3()
            if not res.ok:
                coll.add('C11|evolver-relabel|run-fails|%s|%s' % (
                    res.exc_type, driver), replay,
                    {'error': str(res.exc)[:300],
                     'stderr': getattr(res, 'stderr', '')[:200]})
                continue
            sig = D.stored_signature()
            ids = sorted(a.app_id for a in sig.app_sigs)
            if 'va' in ids or 'vz' not in ids:
                coll.add('C11|evolver-relabel|app-not-relabelled-in-stored-'
                         'signature|%s' % driver, replay, {'apps': ids})
            for app_id, model, field, rel in walk_refs(sig):
                al, mn = rel.split('.', 1)
                a = sig.get_app_sig(al)
                if al == 'va' or a is None or a.get_model_sig(mn) is None:
                    coll.add('C11|evolver-relabel|stale-or-dangling-'
                             'reference|%s' % driver, replay,
                             {'ref': '%s.%s.%s -> %s' % (app_id, model,
                                                         field, rel)})
                    break
            fk = O.fk_check('default')
            if fk:
                coll.add('C11|evolver-relabel|foreign-key-check|%s' % driver,
                         replay, {'rows': fk[:3]})


def evolver_cross_app_scenarios(coll, stats):
    """Two apps evolved in ONE Evolver run: the first renames something the
    second one's foreign keys depend on (a referenced primary key, a
    referenced model kept in its table), the second rebuilds the referring
    table.  Every database foreign key must still point at an existing
    column and validate."""
    from vf.spec import F, M, A, P
    from vf import bootstrap as B, drivers as D, engine_b as EB
    from vf import rows as RW
    v0 = P(A('va', [M('Author', [F('code', 'Int', primary_key=True),
                                 F('name', 'Char', max_length=20)])]),
           A('vab', [M('Book', [F('title', 'Char', max_length=20),
                                F('pages', 'Int', null=True),
                                F('author', 'FK', to='va.Author',
                                  null=True)])]))
    first = [
        ('pk-rename', ['RenameField', 'Author', 'code', 'key', {}]),
        ('field-change', ['ChangeField', 'Author', 'name',
                          {'max_length': 30}, None, None]),
    ]
    second = [
        ('delete-field', ['DeleteField', 'Book', 'pages']),
        ('add-field', ['AddField', 'Book', 'n1', 'Int', {'null': True},
                       None]),
    ]
    for (n1, m1) in first:
        for (n2, m2) in second:
            for driver in ('D2', 'D3'):
                hist = EB.History(v0, [('va', 'e1', [m1]),
                                       ('vab', 'e1', [m2])])
                hist.install(0)
                B.fresh_db('default')
                B.reset_globals()
                if not D.d2_all().ok:
                    continue
                RW.populate(v0, 'R2', 'default')
                hist.install(2)
                B.reset_globals()
                res = EB.upgrade(driver)
                stats['evolver_scenarios'] = stats.get(
                    'evolver_scenarios', 0) + 1
                replay = {'scenario': 'evolver-cross-app', 'first': n1,
                          'second': n2, 'driver': driver}
                shape = '%s+%s|%s' % (n1, n2, driver)
                if not res.ok:
                    coll.add('C11|evolver-cross-app|run-fails|%s|%s' % (
                        res.exc_type, shape), replay,
                        {'error': str(res.exc)[:300]})
                    continue
                tables = set(O.list_tables('default'))
                bad = None
                for t in sorted(tables):
                    for frm, target, to in O.table_dump(t)['fks']:
                        if target not in tables or to not in [
                                c[0] for c in
                                O.table_dump(target)['columns']]:
                            bad = '%s.%s -> %s.%s' % (t, frm, target, to)
                if bad:
                    coll.add('C11|evolver-cross-app|fk-to-missing-column|%s'
                             % shape, replay, {'fk': bad})
                fk = O.fk_check('default')
                if fk:
                    coll.add('C11|evolver-cross-app|foreign-key-check|%s'
                             % shape, replay, {'rows': fk[:3]})


def c11_starts():
    from vf.spec import F, M, A, P
    out = [s for s in starts.s2() + starts.s3()]
    # a single-character app label whose model names start with that letter
    out.append(('S3c', P(
        A('a', [M('author', [F('name', 'Char', max_length=20)])]),
        A('vab', [M('Book', [F('title', 'Char', max_length=20),
                             F('author', 'FK', to='a.author')])]))))
    # apps whose label differs from their package (module) name: the
    # mutators then work with a legacy label next to the real one
    for name, p in list(starts.s2())[:2] + list(starts.s3())[:1]:
        q = S.clone(p)
        for app in q['apps']:
            app['package'] = app['label'] + 'pkg'
        out.append((name + '-pkg', q))
    return out


def work(task):
    name, project, depth, level, profile = task
    stats, violations = EA.bfs(project, depth, judge, level=level,
                               kinds=KINDS, row_profile=profile,
                               alphabet_opts={'rename_pk': True,
                                              'add_types': ('FK', 'M2M')})
    stats['starts'] = 1
    return name, stats, violations


def run(tier, seed, confirm=True):
    t0 = time.time()
    depth = 2 if tier == 'quick' else 3
    tasks = [(name, p, depth, 'full', 'R2') for name, p in c11_starts()]
    total = {}
    coll = findings.Collector(PROP)
    for name, stats, violations in explore.run_tasks(
            'vf.checks.c11.work', tasks, seed=seed):
        common.merge_stats(total, stats)
        coll.merge(violations)
    from vf import bootstrap
    bootstrap.setup()
    extra = {}
    evolver_relabel_scenarios(coll, extra)
    evolver_cross_app_scenarios(coll, extra)
    coverage = {
        'evolver_relabel_scenarios': extra.get('evolver_scenarios', 0),
        'states': total['states'],
        'transitions': total['transitions'],
        'traces_validated_against_impl': total['validated'],
        'samples': total['samples'][:3],
        'exhaustive': True,
        'start_states': total['starts'],
        'transitions_by_mutation': total['by_kind'],
        'transition_statuses': total['statuses'],
        'depth': depth,
    }
    print('C11 %s: %d starts, %d states, %d transitions, statuses %s, '
          'kinds %s' % (tier, total['starts'], total['states'],
                        total['transitions'], total['statuses'],
                        total['by_kind']))
    return common.finish(PROP, tier, seed, 'model_checking', coverage, coll,
                         t0, confirm=confirm, assumptions=[
        'crashes and SQL errors of a transition are reported by C01, not '
        'here',
        'rows (profile R2) are present so that PRAGMA foreign_key_check is '
        'meaningful'])


def replay_scenario(doc):
    coll = findings.Collector(PROP)
    evolver_relabel_scenarios(coll, {})
    evolver_cross_app_scenarios(coll, {})
    for fp, ent in coll.by_fp.items():
        print('  %s %s' % (fp, str(ent['detail'])[:300]))
    if doc['fingerprint'] in coll.by_fp:
        print('REPRODUCED %s' % doc['fingerprint'])
        return 1
    print('NOT-REPRODUCED')
    return 0


def replay(path):
    doc = common.load_replay(path)
    r = doc['replay']
    if r.get('scenario') in ('evolver-relabel', 'evolver-cross-app'):
        return replay_scenario(doc)
    node = EA.start_node(r['start'], r.get('rows'))
    fps = []
    for step in r['steps']:
        tr = EA.execute(node, step)
        found = judge(node, step, tr)
        print('step %s -> %s %s' % (S.canon(step), tr.status, found))
        fps += [f for f, _ in found]
        if tr.child is None:
            break
        node = tr.child
    if doc['fingerprint'] in fps:
        print('REPRODUCED %s' % doc['fingerprint'])
        return 1
    print('NOT-REPRODUCED %s (got %s)' % (doc['fingerprint'], fps))
    return 0
