"""C11 - renames and deletions keep every cross-reference consistent.

Engine A BFS from S2/S3 starts over RenameModel, RenameAppLabel,
RenameField, DeleteField, DeleteModel, DeleteApplication (+ AddField to
create fresh references); invariants on the implementation's simulated
signature and on the real database after every transition."""
import time

from vf import spec as S, starts, engine_a as EA, findings, explore
from vf import observe as O
from vf.checks import common

PROP = 'C11'
KINDS = ('RenameModel', 'RenameAppLabel', 'RenameField', 'DeleteField',
         'DeleteModel', 'DeleteApplication', 'AddField')


def walk_refs(sig):
    """(app_id, model, field, related_model) for every relation."""
    for app_sig in sig.app_sigs:
        for model_sig in app_sig.model_sigs:
            for field_sig in model_sig.field_sigs:
                if field_sig.related_model:
                    yield (app_sig.app_id, model_sig.model_name,
                           field_sig.field_name, field_sig.related_model)


def deleted_on_path(path):
    out = set()
    for label, mj in path:
        if mj[0] == 'DeleteModel':
            out.add('%s.%s' % (label, mj[1]))
        elif mj[0] == 'DeleteApplication':
            out.add(label + '.*')
    return out


def judge(node, step, tr):
    out = []
    label, mj = step
    kind = mj[0]
    if tr.res is None or not tr.res.ok or tr.res.sig is None:
        return out       # crashes / SQL errors belong to C01
    sig = tr.res.sig
    deleted = deleted_on_path(node.path + [step])
    for app_id, model, field, rel in walk_refs(sig):
        al, mn = rel.split('.', 1)
        a = sig.get_app_sig(al)
        ok = a is not None and a.get_model_sig(mn) is not None
        if not ok and rel not in deleted and (al + '.*') not in deleted:
            out.append(('C11|dangling-reference|%s' % kind,
                        {'ref': '%s.%s.%s -> %s' % (app_id, model, field,
                                                    rel)}))
            break
    if kind == 'RenameModel':
        old = '%s.%s' % (label, mj[1])
        for app_id, model, field, rel in walk_refs(sig):
            if rel == old:
                out.append(('C11|stale-reference-after-rename|RenameModel',
                            {'ref': '%s.%s.%s -> %s' % (app_id, model,
                                                        field, rel)}))
                break
    if kind == 'RenameAppLabel':
        for app_id, model, field, rel in walk_refs(sig):
            if rel.split('.', 1)[0] == mj[1]:
                out.append(('C11|stale-reference-after-rename|'
                            'RenameAppLabel',
                            {'ref': '%s.%s.%s -> %s' % (app_id, model,
                                                        field, rel)}))
                break
    # database side
    tables = set(O.list_tables('default'))
    for t, d in (tr.schema or {}).items():
        for frm, target, to in d['fks']:
            if target not in tables:
                out.append(('C11|fk-to-missing-table|%s' % kind,
                            {'fk': '%s.%s -> %s.%s' % (t, frm, target, to)}))
                break
            tcols = [c[0] for c in O.table_dump(target)['columns']]
            if to not in tcols:
                out.append(('C11|fk-to-missing-column|%s' % kind,
                            {'fk': '%s.%s -> %s.%s' % (t, frm, target, to)}))
                break
    if tr.fk_violations:
        out.append(('C11|foreign-key-check|%s' % kind,
                    {'rows': tr.fk_violations[:3]}))
    seen, uniq = set(), []
    for fp, d in out:
        if fp not in seen:
            seen.add(fp)
            uniq.append((fp, d))
    return uniq


def c11_starts():
    from vf.spec import F, M, A, P
    out = [s for s in starts.s2() + starts.s3()]
    # a single-character app label whose model names start with that letter
    out.append(('S3c', P(
        A('a', [M('author', [F('name', 'Char', max_length=20)])]),
        A('vab', [M('Book', [F('title', 'Char', max_length=20),
                             F('author', 'FK', to='a.author')])]))))
    # apps whose label differs from their package (module) name: the
    # mutators then work with a legacy label next to the real one
    for name, p in list(starts.s2())[:2] + list(starts.s3())[:1]:
        q = S.clone(p)
        for app in q['apps']:
            app['package'] = app['label'] + 'pkg'
        out.append((name + '-pkg', q))
    return out


def work(task):
    name, project, depth, level, profile = task
    stats, violations = EA.bfs(project, depth, judge, level=level,
                               kinds=KINDS, row_profile=profile,
                               alphabet_opts={'rename_pk': True,
                                              'add_types': ('FK', 'M2M')})
    stats['starts'] = 1
    return name, stats, violations


def run(tier, seed, confirm=True):
    t0 = time.time()
    depth = 2 if tier == 'quick' else 3
    tasks = [(name, p, depth, 'full', 'R2') for name, p in c11_starts()]
    total = {}
    coll = findings.Collector(PROP)
    for name, stats, violations in explore.run_tasks(
            'vf.checks.c11.work', tasks, seed=seed):
        common.merge_stats(total, stats)
        coll.merge(violations)
    coverage = {
        'states': total['states'],
        'transitions': total['transitions'],
        'traces_validated_against_impl': total['validated'],
        'samples': total['samples'][:3],
        'exhaustive': True,
        'start_states': total['starts'],
        'transitions_by_mutation': total['by_kind'],
        'transition_statuses': total['statuses'],
        'depth': depth,
    }
    print('C11 %s: %d starts, %d states, %d transitions, statuses %s, '
          'kinds %s' % (tier, total['starts'], total['states'],
                        total['transitions'], total['statuses'],
                        total['by_kind']))
    return common.finish(PROP, tier, seed, 'model_checking', coverage, coll,
                         t0, confirm=confirm, assumptions=[
        'crashes and SQL errors of a transition are reported by C01, not '
        'here',
        'rows (profile R2) are present so that PRAGMA foreign_key_check is '
        'meaningful'])


def replay(path):
    doc = common.load_replay(path)
    r = doc['replay']
    node = EA.start_node(r['start'], r.get('rows'))
    fps = []
    for step in r['steps']:
        tr = EA.execute(node, step)
        found = judge(node, step, tr)
        print('step %s -> %s %s' % (S.canon(step), tr.status, found))
        fps += [f for f, _ in found]
        if tr.child is None:
            break
        node = tr.child
    if doc['fingerprint'] in fps:
        print('REPRODUCED %s' % doc['fingerprint'])
        return 1
    print('NOT-REPRODUCED %s (got %s)' % (doc['fingerprint'], fps))
    return 0
