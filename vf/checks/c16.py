"""C16 - evolving one database only applies what is routed to that database.

A three-model app; EVERY assignment of its models to the two databases
(`default`, `other`) through the harness router; every evolution of length
<= d over an alphabet that touches models on both sides; both databases are
installed, then evolved in both orders (default then other, other then
default) through the real Evolver(database_name=...)."""
import itertools
import time

from vf import spec as S, mutlang as ML, observe as O, bootstrap as B
from vf import materialize as MZ, drivers as D, engine_b as EB
from vf import refstate as R, alphabet as AL, findings, explore
from vf.spec import F, M, A, P
from vf.checks import common, c03

PROP = 'C16'
DBS = ('default', 'other')
SKIP = O.BOOKKEEPING_TABLES + ('django_content_type',)


def base_project():
    return P(A('va', [M('Alpha', [F('a', 'Char', max_length=20),
                                  F('i', 'Int', null=True, db_index=True)]),
                      M('Beta', [F('b', 'Int', null=True)]),
                      M('Gamma', [F('c', 'Char', max_length=20),
                                  F('d', 'Int', null=True, db_index=True)])
                      ]))


def programs(depth):
    """Evolutions (lists of mutations of app va) over a small alphabet that
    names each model."""
    letters = [
        ['AddField', 'Alpha', 'n1', 'Int', {'null': True}, None],
        ['ChangeField', 'Alpha', 'a', {'max_length': 30}, None, None],
        ['AddField', 'Beta', 'n1', 'Char', {'max_length': 10}, 'x'],
        ['ChangeField', 'Beta', 'b', {'db_index': True}, None, None],
        ['DeleteField', 'Gamma', 'c'],
        ['ChangeMeta', 'Gamma', 'indexes', [{'fields': ['c'],
                                             'name': 'ix_c'}]],
        ['RenameField', 'Beta', 'b', 'bb', {}],
        ['DeleteModel', 'Gamma'],
        # index / constraint REMOVAL (needs the index state of the right
        # database)
        ['ChangeField', 'Alpha', 'i', {'db_index': False}, None, None],
        ['ChangeField', 'Gamma', 'd', {'db_index': False}, None, None],
    ]
    out = []
    proj = base_project()
    for n in range(1, depth + 1):
        for combo in itertools.permutations(range(len(letters)), n):
            steps = [('va', letters[i]) for i in combo]
            cur = proj
            try:
                for label, mj in steps:
                    cur = ML.apply(cur, label, mj)
            except ML.Disabled:
                continue
            if n > 1 and len(set(mj[1] for _l, mj in steps)) < 2:
                continue        # multi-step programs must span two models
            out.append(steps)
    return out


def set_route(assign):
    B.ROUTE.clear()
    for model, alias in assign.items():
        B.ROUTE[('va', model.lower())] = alias


def routed_spec(project, assign, alias):
    sp = S.clone(project)
    for a in sp['apps']:
        a['models'] = [m for m in a['models']
                       if assign.get(m['name'], alias) == alias]
    return sp


def fresh_schema(project):
    """Schema Django itself creates for the given (sub)project."""
    return R.fresh(project)['schema']


def evolve_db(alias, custom=None, only_if_required=False):
    """Evolve one database: evolutions discovered the normal way, or (when
    `custom` is a list of mutation steps) handed to EvolveAppTask in memory.
    With only_if_required the run follows the evolve command: nothing is
    executed unless get_evolution_required() says so (res.required)."""
    B.reset_globals()
    tracer = O.Tracer(alias)
    res = D.RunResult()
    try:
        from django_evolution.evolve import Evolver, EvolveAppTask
        from django_evolution.compat.apps import get_app
        with tracer.active():
            ev = Evolver(database_name=alias)
            if custom is None:
                ev.queue_evolve_all_apps()
            else:
                ev.queue_task(EvolveAppTask(ev, get_app('va'), evolutions=[{
                    'label': 'e1',
                    'mutations': [ML.to_real(mj) for _l, mj in custom]}]))
            res.required = True
            if only_if_required:
                res.required = bool(ev.get_evolution_required())
            if res.required:
                ev.evolve()
        res.ok = True
    except Exception as e:
        res.exc, res.exc_type = e, type(e).__name__
        D._abort_transactions(alias)
    res.statements = tracer.effects()
    return res


def stored_models(alias):
    from django_evolution.models import Version
    sig = Version.objects.using(alias).order_by('-id')[0].signature
    a = sig.get_app_sig('va')
    if a is None:
        return None
    return sorted(m.model_name for m in a.model_sigs)


def recorded_labels(alias):
    bk = O.bookkeeping_dump(alias)
    return sorted(l for (a, l, _v) in (bk['evolutions'] or []) if a == 'va')


def run_case(assign, steps, order, stats, add, custom=False, fallback=None):
    stats['cases'] += 1
    project = base_project()
    final = project
    for label, mj in steps:
        final = ML.apply(final, label, mj)
    hist = EB.History(project, [('va', 'e1', [mj for _l, mj in steps])])
    replay = {'assign': assign, 'steps': steps, 'order': order,
              'custom': custom, 'fallback': fallback}
    shape = '%s' % c03.abstract_path(steps)
    split = 'split' if len(set(assign.values())) > 1 else 'same-db'
    if custom:
        split += '|in-memory-evolutions'
    if fallback:
        split += '|router-sends-unmanaged-models-to-%s' % fallback
    # reference schemas first (R.fresh re-installs models)
    want0 = {al: fresh_schema(routed_spec(project, assign, al))
             for al in DBS}
    want1 = {al: fresh_schema(routed_spec(final, assign, al)) for al in DBS}
    set_route(assign)
    B.ROUTE_FALLBACK[0] = fallback
    try:
        hist.install(0)
        for al in DBS:
            B.fresh_db(al)
        for al in order:
            other = [x for x in DBS if x != al][0]
            before_other = B.snapshot(other)
            res = evolve_db(al)
            stats['runs'] += 1
            if B.snapshot(other) != before_other:
                add('C16|other-database-modified|install|%s' % split, replay,
                    {'evolving': al,
                     'tables_in_other': O.list_tables(other)[:6]})
            if not res.ok:
                add('C16|install-fails|%s|%s' % (res.exc_type, split),
                    replay, {'db': al, 'error': str(res.exc)[:300]})
                return
            got = O.schema_dump(al, skip=SKIP)
            if got != want0[al]:
                add('C16|installed-tables-not-the-routed-models|%s' % split,
                    replay, {'db': al, 'got': sorted(got),
                             'want': sorted(want0[al])})
                return
            sm = stored_models(al)
            wm = sorted(m['name'] for _l, m in S.iter_models(
                routed_spec(project, assign, al)))
            if (sm or []) != wm:
                add('C16|stored-signature-models-not-the-routed-ones|install'
                    '|%s' % split, replay, {'db': al, 'got': sm,
                                            'want': wm})
        if custom:
            # same models, but the evolution is handed over in memory
            MZ.install(final, evolutions={'va': {'SEQUENCE': [],
                                                 'modules': {}}})
        else:
            hist.install(1)
        for al in order:
            other = [x for x in DBS if x != al][0]
            before_other = B.snapshot(other)
            res = evolve_db(al, custom=steps if custom else None)
            stats['runs'] += 1
            if B.snapshot(other) != before_other:
                add('C16|other-database-modified|%s' % split, replay,
                    {'evolving': al})
            if not res.ok:
                add('C16|evolve-fails|%s|%s|%s' % (
                    res.exc_type, split, shape_kind(steps, assign, al)),
                    replay, {'db': al, 'error': str(res.exc)[:300]})
                continue
            got = O.schema_dump(al, skip=SKIP)
            if got != want1[al]:
                from vf import engine_a as EA
                spec_al = routed_spec(final, assign, al)
                kinds = sorted(set('%s:%s' % (dk, own) for dk, own, _w in
                                   EA.schema_discrepancies(
                                       got, want1[al], spec_al, spec_al)))
                add('C16|schema-not-the-routed-models-evolved|%s|%s' % (
                    '+'.join(kinds), split), replay,
                    {'db': al, 'kinds': kinds})
            sm = stored_models(al)
            wm = sorted(m['name'] for _l, m in S.iter_models(
                routed_spec(final, assign, al)))
            if (sm or []) != wm:
                add('C16|stored-signature-models-not-the-routed-ones|evolve'
                    '|%s' % split, replay, {'db': al, 'got': sm,
                                            'want': wm})
            if not custom and recorded_labels(al) != ['e1']:
                add('C16|evolution-not-recorded-once-in-the-evolved-'
                    'database|%s' % split, replay,
                    {'db': al, 'recorded': recorded_labels(al)})
        if not custom:
            # evolving each database once more must change nothing
            for al in order:
                before = {x: B.snapshot(x) for x in DBS}
                rec_before = recorded_labels(al)
                res = evolve_db(al, only_if_required=True)
                stats['runs'] += 1
                here = routed_spec(final, assign, al)
                n_here = len(list(S.iter_models(here)))
                ctx = 'no-model-of-the-app-on-this-database' \
                    if n_here == 0 else 'some-models-here'
                if not res.ok:
                    add('C16|second-evolve-fails|%s|%s|%s' % (
                        res.exc_type, ctx, split), replay,
                        {'db': al, 'error': str(res.exc)[:200]})
                    continue
                eff = [q for q, _p in res.statements
                       if not q.upper().startswith('PRAGMA')]
                if recorded_labels(al) != rec_before:
                    add('C16|second-evolve-records-evolutions-again|%s|%s'
                        % (ctx, split), replay,
                        {'db': al, 'before': rec_before,
                         'after': recorded_labels(al)})
                elif eff or res.required:
                    add('C16|second-evolve-not-a-noop|%s|%s' % (
                        ctx, split), replay, {'db': al, 'sql': eff[:3]})
                # the same through the API, which does not ask whether an
                # evolution is required: nothing may be recorded again
                res = evolve_db(al)
                stats['runs'] += 1
                if res.ok and recorded_labels(al) != rec_before:
                    add('C16|forced-re-evolve-records-evolutions-again|%s|%s'
                        % (ctx, split), replay,
                        {'db': al, 'before': rec_before,
                         'after': recorded_labels(al)})
    finally:
        B.ROUTE_FALLBACK[0] = None
        B.ROUTE.clear()
        for al in DBS:
            B.fresh_db(al)


def sql_file_scenario(assign, stats, add):
    """An evolution shipped as per-database SQL files
    (<database>_<label>.sql): each database must run its own file."""
    stats['cases'] += 1
    project = base_project()
    replay = {'scenario': 'sql-files', 'assign': assign}
    set_route(assign)
    try:
        MZ.install(project, evolutions={'va': {'SEQUENCE': [],
                                               'modules': {}}})
        for al in DBS:
            B.fresh_db(al)
            r = evolve_db(al)
            if not r.ok:
                return
        from vf import rows as RW
        for al in DBS:
            RW.populate(routed_spec(project, assign, al), 'R2', al)
        files = {}
        for al in DBS:
            stmts = []
            for model, col, val in (('Alpha', 'a', "'%s'" % al),
                                    ('Gamma', 'c', "'%s'" % al)):
                if assign[model] == al:
                    stmts.append('UPDATE va_%s SET %s = %s;\n' % (
                        model.lower(), col, val))
            if assign['Beta'] == al:
                stmts.append('UPDATE va_beta SET b = %d;\n' % (
                    1 if al == 'default' else 2))
            files['%s_e1.sql' % al] = ''.join(stmts) or 'SELECT 1;\n'
        MZ.install(project, evolutions={'va': {
            'SEQUENCE': ['e1'], 'modules': {}, 'sql_files': files}})
        for al in DBS:
            other = [x for x in DBS if x != al][0]
            before_other = B.snapshot(other)
            res = evolve_db(al)
            stats['runs'] += 1
            if B.snapshot(other) != before_other:
                add('C16|other-database-modified|sql-files', replay,
                    {'evolving': al})
            if not res.ok:
                add('C16|evolve-fails|%s|sql-files' % res.exc_type, replay,
                    {'db': al, 'error': str(res.exc)[:300]})
                continue
            want = [l.strip() for l in files['%s_e1.sql' % al].splitlines()]
            got = [q.strip() for q, _p in res.statements
                   if q.strip().upper().startswith(('UPDATE VA_',
                                                    'SELECT 1'))]
            if [w for w in want if w.startswith('UPDATE')] != \
                    [g if g.endswith(';') else g + ';' for g in got
                     if g.upper().startswith('UPDATE')]:
                add('C16|sql-file-of-another-database-executed|sql-files',
                    replay, {'db': al, 'want': want, 'got': got})
    finally:
        B.ROUTE.clear()
        for al in DBS:
            B.fresh_db(al)


def db_aware_sql_scenario(assign, stats, add):
    """A raw SQL evolution that is aware of the database it runs on: its
    SQL (a callable given the cursor) adds a column to the tables that live
    on the cursor's database and its update_func records the new field for
    the models that live on the database being simulated.  Each database
    must end with the routed models of the final project and a stored
    signature that knows the new field of exactly those models."""
    from django.db import models
    from django_evolution.mutations import SQLMutation
    from django_evolution.signature import FieldSignature
    from django_evolution.models import Version
    stats['cases'] += 1
    project = base_project()
    final = S.clone(project)
    for m in final['apps'][0]['models']:
        m['fields'].append(F('note', 'Char', max_length=10, null=True))
    replay = {'scenario': 'db-aware-sql', 'assign': assign}

    def sql_func(cursor):
        return ['ALTER TABLE "va_%s" ADD COLUMN "note" varchar(10) NULL;'
                % name.lower()
                for name in sorted(assign) if assign[name] == cursor.db.alias]

    def update_func(simulation):
        for name in sorted(assign):
            if assign[name] != simulation.database:
                continue
            model_sig = simulation.get_app_sig().get_model_sig(name)
            if model_sig is not None:
                model_sig.add_field_sig(FieldSignature(
                    field_name='note', field_type=models.CharField,
                    field_attrs={'max_length': 10, 'null': True}))
    # (computed first: building a reference schema installs other code)
    wants = {al: fresh_schema(routed_spec(final, assign, al)) for al in DBS}
    set_route(assign)
    try:
        MZ.install(project, evolutions={'va': {'SEQUENCE': [],
                                               'modules': {}}})
        for al in DBS:
            B.fresh_db(al)
            if not evolve_db(al).ok:
                return
        MZ.install(final, evolutions={'va': {'SEQUENCE': ['e1'], 'modules': {
            'e1': {'MUTATIONS': [SQLMutation('add_notes', [sql_func],
                                             update_func)]}}}})
        for al in DBS:
            other = [x for x in DBS if x != al][0]
            before_other = B.snapshot(other)
            res = evolve_db(al)
            stats['runs'] += 1
            if B.snapshot(other) != before_other:
                add('C16|other-database-modified|db-aware-sql', replay,
                    {'evolving': al})
            if not res.ok:
                add('C16|evolve-fails|%s|db-aware-sql' % res.exc_type,
                    replay, {'db': al, 'error': str(res.exc)[:300]})
                continue
            got = O.schema_dump(al, skip=SKIP)
            if got != wants[al]:
                add('C16|schema-not-the-routed-models-evolved|db-aware-sql',
                    replay, {'db': al})
            sig = Version.objects.using(al).order_by('-id')[0].signature
            app_sig = sig.get_app_sig('va')
            missing = [name for name in sorted(assign)
                       if assign[name] == al and (
                           app_sig is None or
                           app_sig.get_model_sig(name) is None or
                           app_sig.get_model_sig(name).get_field_sig(
                               'note') is None)]
            if missing:
                add('C16|stored-signature-lacks-the-evolved-field|'
                    'db-aware-sql', replay, {'db': al, 'models': missing})
    finally:
        B.ROUTE.clear()
        for al in DBS:
            B.fresh_db(al)


def flush_scenario(assign, stats, add):
    """Evolve both databases, `flush` the non-default one, then ship an
    evolution touching both sides and evolve each database."""
    from django.core.management import call_command
    import io
    stats['cases'] += 1
    project = base_project()
    steps = [('va', ['AddField', 'Alpha', 'n1', 'Int', {'null': True},
                     None]),
             ('va', ['AddField', 'Beta', 'n1', 'Int', {'null': True}, None]),
             ('va', ['AddField', 'Gamma', 'n1', 'Int', {'null': True},
                     None])]
    final = project
    for label, mj in steps:
        final = ML.apply(final, label, mj)
    hist = EB.History(project, [('va', 'e1', [mj for _l, mj in steps])])
    replay = {'scenario': 'flush-other', 'assign': assign}
    want1 = {al: fresh_schema(routed_spec(final, assign, al)) for al in DBS}
    set_route(assign)
    try:
        hist.install(0)
        for al in DBS:
            B.fresh_db(al)
            if not evolve_db(al).ok:
                return
        try:
            import contextlib
            with contextlib.redirect_stdout(io.StringIO()):
                call_command('flush', database='other', interactive=False,
                             verbosity=0)
        except Exception as e:
            add('C16|flush-fails|%s' % type(e).__name__, replay,
                {'error': str(e)[:200]})
            return
        hist.install(1)
        for al in DBS:
            res = evolve_db(al)
            stats['runs'] += 1
            if not res.ok:
                add('C16|evolve-fails|%s|after-flush' % res.exc_type,
                    replay, {'db': al, 'error': str(res.exc)[:300]})
                continue
            got = O.schema_dump(al, skip=SKIP)
            if got != want1[al]:
                add('C16|schema-not-the-routed-models-evolved|after-flush',
                    replay, {'db': al})
            sm = stored_models(al)
            wm = sorted(m['name'] for _l, m in S.iter_models(
                routed_spec(final, assign, al)))
            if (sm or []) != wm:
                add('C16|stored-signature-models-not-the-routed-ones|'
                    'after-flush', replay, {'db': al, 'got': sm, 'want': wm})
    finally:
        B.ROUTE.clear()
        for al in DBS:
            B.fresh_db(al)


def shape_kind(steps, assign, alias):
    """Does the evolution name a model routed elsewhere / here / both?"""
    here = any(assign.get(mj[1], alias) == alias for _l, mj in steps)
    there = any(assign.get(mj[1], alias) != alias for _l, mj in steps)
    return ('mixed' if here and there else
            'only-elsewhere' if there else 'only-here')


def work(task):
    assign, progs = task
    stats = {'cases': 0, 'runs': 0, 'samples': []}
    if progs == 'scenarios':
        viol = {}

        def add0(fp, replay, detail):
            viol.setdefault(fp, {'count': 0, 'exemplar': replay,
                                 'detail': detail, 'size': 1})
            viol[fp]['count'] += 1
        sql_file_scenario(assign, stats, add0)
        flush_scenario(assign, stats, add0)
        db_aware_sql_scenario(assign, stats, add0)
        stats['samples'].append({'assign': assign, 'scenarios':
                                 ['sql-files', 'flush-other',
                                  'db-aware-sql']})
        return stats, viol
    viol = {}

    def add(fp, replay, detail):
        size = len(S.canon(replay))
        ent = viol.get(fp)
        if ent is None:
            viol[fp] = {'count': 1, 'exemplar': replay, 'detail': detail,
                        'size': size}
        else:
            ent['count'] += 1
            if size < ent['size']:
                ent.update(exemplar=replay, detail=detail, size=size)
    for steps in progs:
        for order in (['default', 'other'], ['other', 'default']):
            run_case(assign, steps, order, stats, add)
        run_case(assign, steps, ['default', 'other'], stats, add,
                 custom=True)
        run_case(assign, steps, ['other', 'default'], stats, add,
                 fallback='default')
    stats['samples'].append({'assign': assign, 'steps': progs[0]})
    return stats, viol


def run(tier, seed, confirm=True):
    from vf import bootstrap
    bootstrap.setup()
    t0 = time.time()
    depth = 1 if tier == 'quick' else 2
    progs = programs(depth)
    if tier == 'quick':
        progs = progs + [p for p in programs(2)
                         if p[0][1][0] == 'AddField'][:6]
    tasks = []
    models = ['Alpha', 'Beta', 'Gamma']
    for combo in itertools.product(DBS, repeat=3):
        assign = dict(zip(models, combo))
        for lo in range(0, len(progs), 8):
            tasks.append((assign, progs[lo:lo + 8]))
        tasks.append((assign, 'scenarios'))
    total = {}
    coll = findings.Collector(PROP)
    for stats, viol in explore.run_tasks('vf.checks.c16.work', tasks,
                                         seed=seed, progress=50):
        common.merge_stats(total, stats)
        coll.merge(viol)
    coverage = {
        'evaluations': total['cases'],
        'distinct_nontrivial': total['cases'] * 6 // 8,
        'rule': 'all 8 assignments of the three models to {default, other} '
                'x every evolution of the 8-letter alphabet up to length %d '
                '(multi-step evolutions span two models) x both evolve '
                'orders (evolutions discovered the normal way) plus one run '
                'with the evolution handed to EvolveAppTask in memory; non-trivial = the 6 assignments that really split '
                'the app over two databases (counted from the enumeration: '
                'cases * 6/8)' % depth,
        'samples': total['samples'][:3],
        'exhaustive': True,
        'evolver_runs': total['runs'],
        'programs': len(progs),
    }
    print('C16 %s: %d cases (8 assignments x %d programs x 2 orders), %d '
          'Evolver runs' % (tier, total['cases'], len(progs), total['runs']))
    return common.finish(PROP, tier, seed, 'exploration', coverage, coll,
                         t0, confirm=confirm, assumptions=[
        'the router answers allow_migrate and db_for_write consistently '
        'from one table; models on different databases are unrelated'])


def replay(path):
    doc = common.load_replay(path)
    r = doc['replay']
    found = {}

    def add(fp, replay, detail):
        found[fp] = detail
    stats = {'cases': 0, 'runs': 0}
    if r.get('scenario') == 'sql-files':
        sql_file_scenario(r['assign'], stats, add)
    elif r.get('scenario') == 'flush-other':
        flush_scenario(r['assign'], stats, add)
    elif r.get('scenario') == 'db-aware-sql':
        db_aware_sql_scenario(r['assign'], stats, add)
    else:
        run_case(r['assign'], [tuple(s) for s in r['steps']], r['order'],
                 stats, add, custom=r.get('custom', False),
                 fallback=r.get('fallback'))
    for fp, d in found.items():
        print('  %s %s' % (fp, str(d)[:400]))
    if doc['fingerprint'] in found:
        print('REPRODUCED %s' % doc['fingerprint'])
        return 1
    print('NOT-REPRODUCED')
    return 0
