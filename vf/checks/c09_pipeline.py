"""C09 part 2: the real pipeline.  A project of three apps (va: two pending
evolutions, vab: one pending evolution, vc: brand-new app whose models must
be created) under every assignment of at most one (quick) / two (thorough)
declared dependencies drawn from the menu {AFTER_, BEFORE_}EVOLUTIONS x
{(app, label), app} at evolution level and at app level, from two start
states (nothing applied / va.a1 already applied); run through the real
Evolver; the execution order is observed from the creating_models /
applying_evolution signals and judged by an independent Kahn check."""
import itertools

from vf import spec as S, observe as O, bootstrap as B, drivers as D
from vf import engine_b as EB, materialize as MZ, mutlang as ML, explore
from vf.spec import F, M, A, P

PENDING = {'va': ['a1', 'a2'], 'vab': ['b1'], 'vc': []}
NEW_APPS = ('vc',)
MIGRATIONS = ['0001_initial', '0002_add_x']

MIG1 = """from django.db import migrations, models


class Migration(migrations.Migration):
    initial = True
    dependencies = []
    operations = [migrations.CreateModel(name='Doc', fields=[
        ('id', models.AutoField(auto_created=True, primary_key=True,
                                serialize=False, verbose_name='ID')),
        ('title', models.CharField(max_length=20)),
    ])]
"""
MIG2 = """from django.db import migrations, models


class Migration(migrations.Migration):
    dependencies = [('vm', '0001_initial')]
    operations = [migrations.AddField(model_name='doc', name='x',
                                      field=models.IntegerField(null=True))]
"""


def project(version):
    va = M('Item', [F('a', 'Char', max_length=20)] +
           ([F('n1', 'Int', null=True)] if version >= 1 else []) +
           ([F('n2', 'Int', null=True)] if version >= 2 else []))
    vab = M('Thing', [F('t', 'Char', max_length=20)] +
            ([F('n1', 'Int', null=True)] if version >= 2 else []))
    apps = [A('va', [va]), A('vab', [vab])]
    if version >= 2:
        apps.append(A('vc', [M('Extra', [F('tag', 'Char', max_length=20,
                                           db_index=True)])]))
        apps.append(A('vm', [M('Doc', [F('title', 'Char', max_length=20),
                                       F('x', 'Int', null=True)])]))
    return P(*apps)


def holders():
    return [('va', 'a1'), ('va', 'a2'), ('vab', 'b1'),
            ('va', None), ('vab', None), ('vc', None)]


def options(holder):
    app = holder[0]
    out = []
    for other, labels in PENDING.items():
        if other == app:
            continue
        targets = [(other, l) for l in labels] + [other]
        for t in targets:
            for kind in ('AFTER_EVOLUTIONS', 'BEFORE_EVOLUTIONS'):
                out.append((kind, t))
    for name in MIGRATIONS:
        for kind in ('AFTER_MIGRATIONS', 'BEFORE_MIGRATIONS'):
            out.append((kind, ('vm', name)))
    return out


def configs(max_deps):
    hs = holders()
    out = [[]]
    for h in hs:
        for o in options(h):
            out.append([(h, o)])
    if max_deps >= 2:
        for h1, h2 in itertools.combinations(hs, 2):
            for o1 in options(h1):
                for o2 in options(h2):
                    out.append([(h1, o1), (h2, o2)])
    return out


VC_SEQUENCE = [['c1']]   # SEQUENCE of the brand-new app vc ([] in the
                         # configurations marked vc-sequence-empty)
VAB_LABEL = ['b1']      # the label of app vab's evolution (scenarios may
                        # set it to 'a2' so that two apps share a label)


def install(version, deps, applied_a1=False):
    """Install code `version` (0 = old, 2 = everything pending)."""
    proj = project(version)
    evos = {}
    dmap = {}
    for (h, (kind, target)) in deps:
        t = list(target) if isinstance(target, tuple) else target
        dmap.setdefault(h, {}).setdefault(kind, []).append(
            tuple(t) if isinstance(t, list) else t)
    def body(app, label, muts):
        b = {'MUTATIONS': [ML.to_real(m) for m in muts]}
        b.update(dmap.get((app, label), {}))
        return b
    if version == 0:
        evos['va'] = {'SEQUENCE': [], 'modules': {}}
        evos['vab'] = {'SEQUENCE': [], 'modules': {}}
    elif version == 1:
        evos['va'] = {'SEQUENCE': ['a1'], 'modules': {'a1': body(
            'va', 'a1', [['AddField', 'Item', 'n1', 'Int', {'null': True},
                          None]])}}
        evos['vab'] = {'SEQUENCE': [], 'modules': {}}
    else:
        evos['va'] = {'SEQUENCE': ['a1', 'a2'], 'modules': {
            'a1': body('va', 'a1', [['AddField', 'Item', 'n1', 'Int',
                                     {'null': True}, None]]),
            'a2': body('va', 'a2', [['AddField', 'Item', 'n2', 'Int',
                                     {'null': True}, None]])},
            'top': dmap.get(('va', None), {})}
        evos['vab'] = {'SEQUENCE': [VAB_LABEL[0]], 'modules': {
            VAB_LABEL[0]: body('vab', 'b1', [['AddField', 'Thing', 'n1', 'Int',
                                      {'null': True}, None]])},
            'top': dmap.get(('vab', None), {})}
        evos['vc'] = {'SEQUENCE': list(VC_SEQUENCE[0]), 'modules': {
            l: {'MUTATIONS': []} for l in VC_SEQUENCE[0]},
            'top': dmap.get(('vc', None), {})}
    migs = {'vm': [('0001_initial', MIG1), ('0002_add_x', MIG2)]} \
        if version >= 2 else None
    return MZ.install(proj, evolutions=evos, migrations=migs)


def required_edges(deps, applied):
    """(u, v): u must execute before v.  Units: ('e', app, label) and
    ('c', app)."""
    units = []
    for app, labels in PENDING.items():
        for l in labels:
            if (app, l) not in applied:
                units.append(('e', app, l))
    for app in NEW_APPS:
        units.append(('c', app))
    for name in MIGRATIONS:
        units.append(('m', 'vm', name))

    def units_of(app):
        return [u for u in units if u[1] == app]

    def target_units(t, kind='e'):
        if isinstance(t, (tuple, list)):
            u = (kind, t[0], t[1])
            return [u] if u in units else []
        return units_of(t)
    edges = set()
    edges.add((('m', 'vm', MIGRATIONS[0]), ('m', 'vm', MIGRATIONS[1])))
    if ('e', 'va', 'a1') in units:
        edges.add((('e', 'va', 'a1'), ('e', 'va', 'a2')))
    for (h, (kind, target)) in deps:
        if h[1] is None:
            mine = units_of(h[0])
        else:
            u = ('e', h[0], h[1])
            mine = [u] if u in units else []
        for tu in target_units(target, 'm' if 'MIGRATIONS' in kind else 'e'):
            for mu in mine:
                if kind.startswith('AFTER_'):
                    edges.add((tu, mu))
                else:
                    edges.add((mu, tu))
    return units, sorted(edges)


def acyclic(units, edges):
    indeg = {u: 0 for u in units}
    out = {u: [] for u in units}
    for a, b in edges:
        indeg[b] += 1
        out[a].append(b)
    todo = [u for u in units if indeg[u] == 0]
    n = 0
    while todo:
        x = todo.pop()
        n += 1
        for y in out[x]:
            indeg[y] -= 1
            if indeg[y] == 0:
                todo.append(y)
    return n == len(units)


_images = {}


def start_image(applied_a1):
    key = applied_a1
    if key not in _images:
        install(0, [])
        B.fresh_db('default')
        B.reset_globals()
        r = D.d2_all()
        assert r.ok, r.exc
        if applied_a1:
            install(1, [])
            B.reset_globals()
            r = D.d2_all()
            assert r.ok, r.exc
        _images[key] = B.snapshot('default')
    return _images[key]


def run_config(deps, applied_a1, add, stats, vc_empty=False):
    VC_SEQUENCE[0] = [] if vc_empty else ['c1']
    try:
        return _run_config(deps, applied_a1, add, stats, vc_empty)
    finally:
        VC_SEQUENCE[0] = ['c1']


def _run_config(deps, applied_a1, add, stats, vc_empty):
    stats['configs'] += 1
    applied = {('va', 'a1')} if applied_a1 else set()
    units, edges = required_edges(deps, applied)
    ok_req = acyclic(units, edges)
    if deps:
        stats['nontrivial'] += 1
    if not ok_req:
        stats['cyclic'] += 1
    img = start_image(applied_a1)
    install(2, deps)
    B.restore(img, 'default')
    B.reset_globals()
    seq = [0]
    tracer = O.Tracer('default', seq=seq)
    with O.SignalLog(seq) as log:
        res = D.d2_all(tracer=tracer)
    order = units_from_sql(tracer.effects(), applied)
    payload_order = []
    for (_s, name, p) in log.events:
        if name == 'applying_evolution':
            payload_order.append([tuple(e) for e in p['evolutions']])
    replay = {'deps': [[list(h), [k, list(t) if isinstance(t, tuple)
                                  else t]] for (h, (k, t)) in deps],
              'applied_a1': applied_a1, 'vc_empty': vc_empty}
    shape = dep_shape(deps)
    if vc_empty:
        shape += '|new-app-without-evolutions'
    if not ok_req:
        if res.ok:
            add('C09|pipeline|unsatisfiable-dependencies-not-reported|%s'
                % shape, replay, {'order': order, 'edges': edges})
        return
    if not res.ok:
        add('C09|pipeline|satisfiable-dependencies-rejected|%s|%s' % (
            res.exc_type, shape), replay,
            {'error': str(res.exc)[:300], 'edges': edges})
        return
    mine = [u for u in order if u in units]
    if sorted(mine) != sorted(units) or len(mine) != len(set(mine)):
        add('C09|pipeline|units-not-executed-exactly-once|%s' % shape,
            replay, {'order': order, 'units': units})
        return
    extra = [u for u in order if u not in units]
    if extra:
        add('C09|pipeline|applied-unit-executed-again|%s' % shape, replay,
            {'extra': extra})
    pos = {u: i for i, u in enumerate(mine)}
    for a, b in edges:
        if pos[a] > pos[b]:
            kinds = {'e': 'evolution', 'c': 'model-creation',
                     'm': 'migration'}
            add('C09|pipeline|dependency-violated|%s-must-precede-%s|%s' % (
                kinds[a[0]], kinds[b[0]], shape), replay,
                {'order': mine, 'edge': [a, b]})
            break


def units_from_sql(effects, applied=(), dedup=True):
    """Execution order of the units, recognised from the statements
    themselves (independent of signal payloads).  With dedup=False every
    occurrence is reported (a unit whose SQL runs twice appears twice)."""
    order = []
    seen = set(('e',) + tuple(a) for a in applied)

    def emit(u):
        if not dedup:
            order.append(u)
        elif u not in seen:
            seen.add(u)
            order.append(u)
    pending_create = None
    pending_copy = ''
    for sql, _params in effects:
        s_ = sql.strip()
        if s_.startswith('CREATE TABLE "vc_extra"'):
            emit(('c', 'vc'))
        elif s_.startswith('CREATE TABLE "vm_doc"'):
            emit(('m', 'vm', MIGRATIONS[0]))
        elif 'vm_doc' in s_ and '"x"' in s_:
            emit(('m', 'vm', MIGRATIONS[1]))
        elif s_.startswith('CREATE TABLE "TEMP_TABLE"'):
            pending_create = s_
            pending_copy = ''
        elif s_.startswith('INSERT INTO "TEMP_TABLE"') and pending_create:
            pending_copy = s_
        elif s_.startswith('ALTER TABLE "TEMP_TABLE" RENAME TO') and \
                pending_create:
            # a column is ADDED by this rebuild iff the new table has it
            # and the copy statement does not read it from the old table
            def added(col):
                return col in pending_create and (
                    dedup or col not in pending_copy)
            if '"va_item"' in s_:
                if added('"n1"'):
                    emit(('e', 'va', 'a1'))
                if added('"n2"'):
                    emit(('e', 'va', 'a2'))
            elif '"vab_thing"' in s_ and added('"n1"'):
                emit(('e', 'vab', VAB_LABEL[0]))
            pending_create = None
    return order


def dep_shape(deps):
    parts = []
    for (h, (kind, t)) in deps:
        parts.append('%s:%s->%s' % (
            'app' if h[1] is None else 'evolution',
            kind.split('_')[0].lower(),
            'migration' if 'MIGRATIONS' in kind else
            'evolution' if isinstance(t, tuple) else
            ('new-app' if t in NEW_APPS else 'app')))
    return '+'.join(sorted(parts)) or 'none'


def work(task):
    chunk, applied_a1 = task[:2]
    vc_empty = task[2] if len(task) > 2 else False
    stats = {'configs': 0, 'nontrivial': 0, 'cyclic': 0, 'samples': []}
    viol = {}
    if chunk == 'handover':
        def add_h(fp, replay, detail):
            viol.setdefault(fp, {'count': 0, 'exemplar': replay,
                                 'detail': detail,
                                 'size': len(S.canon(replay))})
            viol[fp]['count'] += 1
        if applied_a1 == 'fresh':
            handover_fresh_scenario(add_h, stats)
        else:
            handover_scenario(applied_a1, add_h, stats)
        return stats, viol

    def add(fp, replay, detail):
        size = len(S.canon(replay))
        ent = viol.get(fp)
        if ent is None:
            viol[fp] = {'count': 1, 'exemplar': replay, 'detail': detail,
                        'size': size}
        else:
            ent['count'] += 1
            if size < ent['size']:
                ent.update(exemplar=replay, detail=detail, size=size)
    for deps in chunk:
        run_config(deps, applied_a1, add, stats, vc_empty)
    if chunk:
        stats['samples'].append({'deps': str(chunk[-1]),
                                 'applied_a1': applied_a1})
    return stats, viol


# ---------------------------------------------- hand-over + declared deps

VH_MIG1 = """from django.db import migrations, models


class Migration(migrations.Migration):
    initial = True
    dependencies = []
    operations = [migrations.CreateModel(name='Note', fields=[
        ('id', models.AutoField(auto_created=True, primary_key=True,
                                serialize=False, verbose_name='ID')),
        ('t', models.CharField(max_length=20)),
        ('n1', models.IntegerField(null=True)),
    ])]
"""

HANDOVER_DEPS = [
    (),
    (('AFTER_MIGRATIONS', ('vm', '0002_add_x')),),
    (('AFTER_MIGRATIONS', ('vm', '0001_initial')),),
    (('BEFORE_MIGRATIONS', ('vm', '0002_add_x')),),
    (('BEFORE_MIGRATIONS', ('vm', '0001_initial')),),
]


def handover_install(final, declared):
    """App vh is handed over to migrations by evolution h1 = [AddField n1,
    MoveToDjangoMigrations] (its 0001_initial covers the evolved model);
    h1 additionally DECLARES the given dependencies on the pending
    migrations of app vm.  The dependency that MoveToDjangoMigrations
    generates itself must be merged with the declared ones."""
    from django_evolution.mutations import MoveToDjangoMigrations
    note = M('Note', [F('t', 'Char', max_length=20)] +
             ([F('n1', 'Int', null=True)] if final else []))
    apps = [A('vh', [note])]
    evos = {'vh': {'SEQUENCE': [], 'modules': {}}}
    migs = None
    if final:
        apps.append(A('vm', [M('Doc', [F('title', 'Char', max_length=20),
                                       F('x', 'Int', null=True)])]))
        body = {'MUTATIONS': [
            ML.to_real(['AddField', 'Note', 'n1', 'Int', {'null': True},
                        None]),
            MoveToDjangoMigrations(mark_applied=['0001_initial'])]}
        for kind, target in declared:
            body.setdefault(kind, []).append(tuple(target))
        evos['vh'] = {'SEQUENCE': ['h1'], 'modules': {'h1': body}}
        migs = {'vm': [('0001_initial', MIG1), ('0002_add_x', MIG2)],
                'vh': [('0001_initial', VH_MIG1)]}
    return MZ.install(P(*apps), evolutions=evos, migrations=migs)


def handover_scenario(idx, add, stats):
    declared = HANDOVER_DEPS[idx]
    stats['configs'] += 1
    stats['handover_configs'] = stats.get('handover_configs', 0) + 1
    handover_install(False, ())
    B.fresh_db('default')
    B.reset_globals()
    r = D.d2_all()
    assert r.ok, r.exc
    handover_install(True, declared)
    B.reset_globals()
    tracer = O.Tracer('default')
    res = D.d2_all(tracer=tracer)
    order = []
    pending = None
    for sql, _p in tracer.effects():
        s_ = sql.strip()
        if s_.startswith('CREATE TABLE "vm_doc"'):
            order.append(('m', 'vm', '0001_initial'))
        elif 'vm_doc' in s_ and '"x"' in s_ and \
                ('m', 'vm', '0002_add_x') not in order:
            order.append(('m', 'vm', '0002_add_x'))
        elif s_.startswith('CREATE TABLE "TEMP_TABLE"'):
            pending = s_
        elif s_.startswith('ALTER TABLE "TEMP_TABLE" RENAME TO '
                           '"vh_note"') and pending and '"n1"' in pending:
            order.append(('e', 'vh', 'h1'))
            pending = None
        elif 'vh_note' in s_ and 'ADD COLUMN' in s_.upper() and \
                '"n1"' in s_:
            order.append(('e', 'vh', 'h1'))
    shape = 'handover:' + ('+'.join(sorted(
        '%s->%s' % (k.split('_')[0].lower(), t[1]) for k, t in declared))
        or 'none')
    replay = {'scenario': 'handover', 'index': idx}
    edges = [(('m', 'vm', '0001_initial'), ('m', 'vm', '0002_add_x'))]
    for kind, target in declared:
        tu = ('m', target[0], target[1])
        if kind.startswith('AFTER_'):
            edges.append((tu, ('e', 'vh', 'h1')))
        else:
            edges.append((('e', 'vh', 'h1'), tu))
    units = [('m', 'vm', '0001_initial'), ('m', 'vm', '0002_add_x'),
             ('e', 'vh', 'h1')]
    if not acyclic(units, edges):
        stats['cyclic'] += 1
        if res.ok:
            add('C09|pipeline|unsatisfiable-dependencies-not-reported|%s'
                % shape, replay, {'order': order})
        return
    if not res.ok:
        add('C09|pipeline|satisfiable-dependencies-rejected|%s|%s' % (
            res.exc_type, shape), replay, {'error': str(res.exc)[:300]})
        return
    if sorted(order) != sorted(units):
        add('C09|pipeline|units-not-executed-exactly-once|%s' % shape,
            replay, {'order': order})
        return
    pos = {u: i for i, u in enumerate(order)}
    for a, b in edges:
        if pos[a] > pos[b]:
            kinds = {'e': 'evolution', 'm': 'migration'}
            add('C09|pipeline|dependency-violated|%s-must-precede-%s|%s' % (
                kinds[a[0]], kinds[b[0]], shape), replay,
                {'order': order, 'edge': [a, b]})
            break


VH_MIG1_PLAIN = """from django.db import migrations, models


class Migration(migrations.Migration):
    initial = True
    dependencies = []
    operations = [migrations.CreateModel(name='Note', fields=[
        ('id', models.AutoField(auto_created=True, primary_key=True,
                                serialize=False, verbose_name='ID')),
        ('t', models.CharField(max_length=20)),
    ])]
"""
VH_MIG2 = """from django.db import migrations, models


class Migration(migrations.Migration):
    dependencies = [('vh', '0001_initial')]
    operations = [migrations.AddField(model_name='note', name='n1',
                                      field=models.IntegerField(null=True))]
"""


def handover_fresh_scenario(add, stats):
    """Fresh install of an app whose hand-over evolution marks TWO
    migrations as applied, next to a brand-new app that must be created
    AFTER that evolution: the dependency MoveToDjangoMigrations generates
    covers every marked migration, so both run before the other app's
    tables are created."""
    from django_evolution.mutations import MoveToDjangoMigrations
    stats['configs'] += 1
    stats['handover_configs'] = stats.get('handover_configs', 0) + 1
    for marked in (['0001_initial', '0002_add_n1'], ['0001_initial']):
        apps = [A('vh', [M('Note', [F('t', 'Char', max_length=20),
                                    F('n1', 'Int', null=True)])]),
                A('vz', [M('Zed', [F('tag', 'Char', max_length=20)])])]
        evos = {
            'vh': {'SEQUENCE': ['h1'], 'modules': {'h1': {'MUTATIONS': [
                MoveToDjangoMigrations(mark_applied=list(marked))]}}},
            'vz': {'SEQUENCE': [], 'modules': {},
                   'top': {'AFTER_EVOLUTIONS': [('vh', 'h1')]}}}
        MZ.install(P(*apps), evolutions=evos,
                   migrations={'vh': [('0001_initial', VH_MIG1_PLAIN),
                                      ('0002_add_n1', VH_MIG2)]})
        B.fresh_db('default')
        B.reset_globals()
        tracer = O.Tracer('default')
        res = D.d2_all(tracer=tracer)
        replay = {'scenario': 'handover-fresh', 'marked': marked}
        shape = 'handover-fresh:marked-%d' % len(marked)
        if not res.ok:
            add('C09|pipeline|satisfiable-dependencies-rejected|%s|%s' % (
                res.exc_type, shape), replay, {'error': str(res.exc)[:300]})
            continue
        order = []
        for sql, _p in tracer.effects():
            s_ = sql.strip()
            if s_.startswith('CREATE TABLE "vh_note"'):
                order.append('m1')
            elif 'vh_note' in s_ and '"n1"' in s_ and 'm2' not in order \
                    and 'm1' in order and not s_.startswith('INSERT'):
                order.append('m2')
            elif s_.startswith('CREATE TABLE "vz_zed"'):
                order.append('c')
        want_before_c = ['m1', 'm2'] if len(marked) == 2 else ['m1']
        if 'c' not in order or 'm1' not in order or 'm2' not in order:
            add('C09|pipeline|units-not-executed-exactly-once|%s' % shape,
                replay, {'order': order})
            continue
        for u in want_before_c:
            if order.index(u) > order.index('c'):
                add('C09|pipeline|dependency-violated|migration-must-'
                    'precede-model-creation|%s' % shape, replay,
                    {'order': order})
                break


def run_part(tier, seed, coll):
    from vf import bootstrap
    from vf.checks import common
    bootstrap.setup()
    cfgs = configs(1 if tier == 'quick' else 2)
    tasks = []
    for lo in range(0, len(cfgs), 12):
        tasks.append((cfgs[lo:lo + 12], False))
    singles = configs(1)
    for lo in range(0, len(singles), 12):
        tasks.append((singles[lo:lo + 12], True))
    # the brand-new app declares app-level dependencies but ships no
    # evolution of its own (SEQUENCE = [])
    vc_cfgs = [c for c in singles if c and c[0][0] == ('vc', None)]
    for lo in range(0, len(vc_cfgs), 12):
        tasks.append((vc_cfgs[lo:lo + 12], False, True))
    for i in range(len(HANDOVER_DEPS)):
        tasks.append(('handover', i))
    tasks.append(('handover', 'fresh'))
    total = {}
    for stats, viol in explore.run_tasks('vf.checks.c09_pipeline.work',
                                         tasks, seed=seed):
        common.merge_stats(total, stats)
        coll.merge(viol)
    return {'configs': total['configs'], 'nontrivial': total['nontrivial'],
            'cyclic_requirement_sets': total['cyclic'],
            'samples': total['samples'][:2]}


def replay(doc):
    r = doc['replay']
    if r.get('scenario') == 'handover-fresh':
        found = {}
        handover_fresh_scenario(lambda fp, rp, d: found.setdefault(fp, d),
                                {'configs': 0})
        for fp, d in found.items():
            print('  %s %s' % (fp, str(d)[:500]))
        if doc['fingerprint'] in found:
            print('REPRODUCED %s' % doc['fingerprint'])
            return 1
        print('NOT-REPRODUCED')
        return 0
    if r.get('scenario') == 'handover':
        found = {}
        handover_scenario(r['index'],
                          lambda fp, rp, d: found.setdefault(fp, d),
                          {'configs': 0, 'cyclic': 0})
        for fp, d in found.items():
            print('  %s %s' % (fp, str(d)[:500]))
        if doc['fingerprint'] in found:
            print('REPRODUCED %s' % doc['fingerprint'])
            return 1
        print('NOT-REPRODUCED')
        return 0
    deps = []
    for h, (k, t) in r['deps']:
        deps.append(((h[0], h[1]), (k, tuple(t) if isinstance(t, list)
                                    else t)))
    found = {}

    def add(fp, replay, detail):
        found[fp] = detail
    stats = {'configs': 0, 'nontrivial': 0, 'cyclic': 0}
    run_config(deps, r['applied_a1'], add, stats, r.get('vc_empty', False))
    for fp, d in found.items():
        print('  %s %s' % (fp, str(d)[:500]))
    if doc['fingerprint'] in found:
        print('REPRODUCED %s' % doc['fingerprint'])
        return 1
    print('NOT-REPRODUCED')
    return 0
