"""C12 - upgrades that cannot reach the current models never touch the
database.

For every (models, evolution) pair generated from Engine A paths, the
evolution is perturbed by every operator at every position (drop, duplicate,
swap, rename to a missing / other existing name, change an attribute value,
remove the initial value, re-target to another model), installed as a real
evolution module and run through `evolve --execute --noinput`."""
import os
import time

from vf import spec as S, mutlang as ML, observe as O, bootstrap as B
from vf import drivers as D, alphabet as AL, materialize as MZ
from vf import engine_b as EB, findings, explore
from vf.checks import common, c03, c07

PROP = 'C12'
KINDS = ('AddField', 'DeleteField', 'RenameField', 'ChangeField',
         'ChangeMeta')


def perturbations(spec0, steps):
    """Yield (operator, position, perturbed steps)."""
    n = len(steps)
    models = [m['name'] for _l, m in S.iter_models(spec0)]
    for i in range(n):
        yield 'drop', i, steps[:i] + steps[i + 1:]
        yield 'duplicate', i, steps[:i + 1] + [steps[i]] + steps[i + 1:]
        if i + 1 < n:
            sw = list(steps)
            sw[i], sw[i + 1] = sw[i + 1], sw[i]
            yield 'swap', i, sw
        label, mj = steps[i]
        kind = mj[0]

        def repl(new_mj, op):
            return op, i, steps[:i] + [(label, new_mj)] + steps[i + 1:]
        if kind in ('AddField', 'DeleteField', 'RenameField', 'ChangeField',
                    'ChangeMeta', 'DeleteModel', 'RenameModel'):
            m2 = list(mj)
            m2[1] = 'Nope'
            yield repl(m2, 'model-name-missing')
            for other in models:
                if other != mj[1]:
                    m3 = list(mj)
                    m3[1] = other
                    yield repl(m3, 'retarget-model')
                    break
        if kind in ('DeleteField', 'ChangeField', 'RenameField'):
            m2 = list(mj)
            m2[2] = 'nope'
            yield repl(m2, 'field-name-missing')
            m = S.get_model(spec0, label, mj[1])
            if m:
                for f in m['fields']:
                    if f['name'] != mj[2] and f['type'] != 'M2M':
                        m3 = list(mj)
                        m3[2] = f['name']
                        yield repl(m3, 'field-name-other')
                        break
        if kind == 'AddField':
            # the field type replaced by a subclass of it (the residual
            # difference is the type alone)
            for sub in {'Int': ['PosInt', 'BigInt'], 'FK': ['O2O'],
                        'Char': ['Text']}.get(mj[3], []):
                m5 = list(mj)
                m5[3] = sub
                if sub == 'Text':
                    m5[4] = {k: v for k, v in mj[4].items()
                             if k != 'max_length'}
                yield repl(m5, 'field-type-' + (
                    'subclass' if sub != 'Text' else 'other'))
            m = S.get_model(spec0, label, mj[1])
            if m and m['fields']:
                m2 = list(mj)
                m2[2] = m['fields'][0]['name']
                yield repl(m2, 'add-existing-field')
            if mj[5] is not None:
                m3 = list(mj)
                m3[5] = None
                yield repl(m3, 'remove-initial')
            attrs = dict(mj[4])
            if 'max_length' in attrs:
                attrs['max_length'] += 1
                m4 = list(mj)
                m4[4] = attrs
                yield repl(m4, 'attr-value')
            else:
                attrs['null'] = not attrs.get('null', False)
                m4 = list(mj)
                m4[4] = attrs
                if attrs['null'] or mj[5] is not None:
                    yield repl(m4, 'attr-value')
        if kind == 'ChangeField':
            attrs = dict(mj[3])
            m2 = list(mj)
            if mj[4] is not None:
                m2[4] = None
                yield repl(m2, 'remove-initial')
            a2 = dict(attrs)
            for k, v in attrs.items():
                if isinstance(v, bool):
                    a2[k] = not v
                elif isinstance(v, int):
                    a2[k] = v + 1
                elif isinstance(v, str):
                    a2[k] = v + 'x'
                break
            if a2 != attrs:
                m3 = list(mj)
                m3[3] = a2
                if not ('null' in a2 and a2['null'] is False and
                        m3[4] is None):
                    yield repl(m3, 'attr-value')
        if kind == 'ChangeMeta':
            # the first multi-field entry with its fields in another order
            # (the order of the columns of an index or of a together-group
            # is part of the definition)
            val = S.clone(mj[3])
            done = False
            for ent in val or []:
                flds = ent.get('fields') if isinstance(ent, dict) else ent
                if isinstance(flds, list) and len(flds) > 1:
                    flds.reverse()
                    done = True
                    break
            if done:
                m2 = list(mj)
                m2[3] = val
                yield repl(m2, 'meta-fields-permuted')
        if kind == 'DeleteField':
            m = S.get_model(spec0, label, mj[1])
            if m:
                m2 = list(mj)
                m2[2] = S.pk_field(m)['name']
                yield repl(m2, 'delete-primary-key')
        if len(mj) > 1 and isinstance(mj[1], str):
            m = S.get_model(spec0, label, mj[1])
            pk = S.pk_field(m) if m else None
            if pk is not None and pk['name'] != 'id':
                # the primary key is deleted and added again (same
                # definition) next to the real change: the simulation ends at
                # the current models, only the deletion itself is invalid
                ins = [(label, ['DeleteField', mj[1], pk['name']]),
                       (label, ['AddField', mj[1], pk['name'], pk['type'],
                                dict(pk['attrs']), 'k'])]
                yield ('delete-and-re-add-primary-key', i,
                       steps[:i] + ins + steps[i:])


def reference_verdict(spec0, target, steps):
    """'equivalent' | 'must-reject' | 'undetermined'"""
    cur = spec0
    try:
        for label, mj in steps:
            cur = ML.apply(cur, label, mj)
    except ML.Disabled as e:
        # 'invalid:<reason>' for the invalidities the property lists;
        # plain 'disabled' for restrictions of the harness's own language
        return 'invalid:' + e.invalid if e.invalid else 'disabled'
    except Exception:
        return 'disabled'
    return 'equivalent' if S.canon_unordered(cur) == \
        S.canon_unordered(target) else 'must-reject'


EVOLUTION_MARKERS = (
    'cannot resolve automatically', 'Cannot ', 'could not be found',
    'must be specified', 'needs to be specified', 'cannot be',
    'not supported', 'does not support', 'is not a valid',
    'The application', 'The model', 'The field', 'Error applying',
    # django_evolution.errors.MissingSignatureError
    'Unable to find a model signature', 'Unable to find an app signature',
)


def same_field_context(pert, pos):
    """Which other mutations of the perturbed evolution name the same
    (model, field) as the perturbed one?  (They are what lets the
    pre-processor remove or rewrite it.)"""
    if pos >= len(pert):
        return 'with:nothing'
    mj = pert[pos][1]
    if len(mj) < 3 or not isinstance(mj[2], str):
        return 'with:nothing'
    names = {mj[2]}
    if mj[0] == 'RenameField':
        names.add(mj[3])
    kinds = set()
    for i, (_l, other) in enumerate(pert):
        if i == pos or len(other) < 3 or other[1] != mj[1]:
            continue
        onames = {other[2]} if isinstance(other[2], str) else set()
        if other[0] == 'RenameField':
            onames.add(other[3])
        if names & onames:
            kinds.add(other[0])
    return 'with:' + ('+'.join(sorted(kinds)) or 'nothing')


def run_case(spec0, target, steps, op, pos, pert, stats, add):
    stats['cases'] += 1
    verdict = reference_verdict(spec0, target, pert)
    stats['verdict_' + verdict] = stats.get('verdict_' + verdict, 0) + 1
    if verdict == 'equivalent':
        return
    base = D.baseline(spec0, rows='R2',
                      evolutions={'va': {'SEQUENCE': [], 'modules': {}}},
                      extra_key='c12')
    try:
        real = [ML.to_real(mj) for _l, mj in pert]
    except Exception:
        stats['unbuildable'] += 1
        return
    MZ.install(target, evolutions={'va': {
        'SEQUENCE': ['e1'], 'modules': {'e1': {'MUTATIONS': real}}}})
    B.restore(base, 'default')
    B.reset_globals()
    pre = EB.canonical_state()
    tracer = O.Tracer('default')
    res = D.d3(tracer=tracer)
    stats['runs'] += 1
    post = EB.canonical_state()
    replay = {'start': spec0, 'steps': steps, 'operator': op,
              'position': pos, 'perturbed': pert}
    shape = '%s|%s' % (op, pert[pos][1][0] if pos < len(pert) else
                       steps[pos][1][0])
    effects = [(q, p_) for q, p_ in tracer.effects()
               if not q.upper().startswith('PRAGMA FOREIGN_KEYS')]
    if res.ok:
        if verdict == 'must-reject' and not effects and post == pre:
            # nothing was required (the models did not change) and nothing
            # was done: not an execution
            stats['noop_accepted'] = stats.get('noop_accepted', 0) + 1
        elif verdict == 'must-reject':
            add('C12|non-equivalent-evolution-executed|%s|%s' % (
                shape, same_field_context(pert, pos)), replay,
                {'statements': [q for q, _p in effects][:5],
                 'stdout': res.stdout[-300:]})
        elif not effects and post == pre:
            stats['noop_accepted'] = stats.get('noop_accepted', 0) + 1
        elif verdict == 'disabled':
            # refused by the reference language for a reason of its own
            # (not an invalidity the property names): no verdict
            stats['accepted_reference_restriction'] = stats.get(
                'accepted_reference_restriction', 0) + 1
        else:
            # the evolution names a missing model/field, adds an existing
            # field, deletes a primary key or drops a needed initial value
            # (the reference model refuses it) - and was executed
            stats['accepted_undetermined'] += 1
            add('C12|reference-invalid-evolution-executed|%s|%s|%s' % (
                verdict.split(':', 1)[1], shape,
                same_field_context(pert, pos)), replay, {'statements': [q for q, _p in effects][:5],
                         'stdout': res.stdout[-300:]})
        return
    stats['rejected'] += 1
    if res.exc_type != 'CommandError':
        add('C12|crash-instead-of-rejection|%s|%s' % (res.exc_type, shape),
            replay, {'error': str(res.exc)[:300]})
    else:
        msg = str(res.exc)
        if not any(mk in msg for mk in EVOLUTION_MARKERS):
            add('C12|rejection-without-evolution-error|%s' % shape, replay,
                {'error': msg[:300]})
    if effects:
        err = str(getattr(res.exc, 'detailed_error', None) or res.exc)
        errclass = 'other'
        for key in ('duplicate column name', 'no such column',
                    'NOT NULL constraint failed', 'has no column named',
                    'UNIQUE constraint failed', 'no such index',
                    'already exists', 'no such table'):
            if key in err:
                errclass = key.replace(' ', '-')
                break
        if res.exc_type != 'CommandError':
            errclass = 'crash:' + res.exc_type
        add('C12|sql-executed-by-rejected-upgrade|%s|%s' % (shape, errclass),
            replay,
            {'statements': [q for q, _p in effects][:5],
             'error': str(res.exc)[:200]})
    if post != pre:
        add('C12|database-changed-by-rejected-upgrade|%s|%s' % (
            c07.diff_kind(pre, post), shape), replay,
            {'error': str(res.exc)[:200]})
    if op == 'drop' and verdict == 'must-reject':
        # the same rejected evolution with --purge (another branch of the
        # emptiness test of the residual difference)
        B.restore(base, 'default')
        B.reset_globals()
        t2 = O.Tracer('default')
        r2 = D.d3(tracer=t2, purge=True)
        stats['runs'] += 1
        eff2 = [(q, p_) for q, p_ in t2.effects()
                if not q.upper().startswith('PRAGMA FOREIGN_KEYS')]
        if r2.ok and (eff2 or EB.canonical_state() != pre):
            add('C12|non-equivalent-evolution-executed|%s|%s|with-purge' % (
                shape, same_field_context(pert, pos)), replay,
                {'statements': [q for q, _p in eff2][:5]})


def work(task):
    name, spec0, steps = task
    stats = {'cases': 0, 'runs': 0, 'rejected': 0, 'unbuildable': 0,
             'accepted_undetermined': 0, 'programs': 1, 'samples': []}
    viol = {}

    def add(fp, replay, detail):
        size = len(S.canon(replay))
        ent = viol.get(fp)
        if ent is None:
            viol[fp] = {'count': 1, 'exemplar': replay, 'detail': detail,
                        'size': size}
        else:
            ent['count'] += 1
            if size < ent['size']:
                ent.update(exemplar=replay, detail=detail, size=size)
    target = spec0
    for label, mj in steps:
        target = ML.apply(target, label, mj)
    for op, pos, pert in perturbations(spec0, steps):
        run_case(spec0, target, steps, op, pos, pert, stats, add)
    stats['samples'].append({'steps': steps, 'operators': sorted(set(
        op for op, _p, _s in perturbations(spec0, steps)))})
    return stats, viol


def tasks_for(tier):
    from vf import bootstrap
    bootstrap.setup()
    tasks = []
    only = os.environ.get('VERIF_ONLY')

    def add(name, start, depth, level, kinds):
        if only and only not in name:
            return
        for i, steps in enumerate(c07.gen_programs(start, depth, level,
                                                   kinds)):
            tasks.append(('%s#%d' % (name, i), start, steps))
    narrow = c03.narrow_start()
    two = c03.two_model_start()
    # explicit primary key whose column name differs from the field name
    from vf.spec import F, M, A, P
    pkstart = P(A('va', [M('Item', [
        F('code', 'Char', primary_key=True, max_length=10,
          db_column='isbn'),
        F('a', 'Char', max_length=20), F('b', 'Int', null=True)])]))
    add('explicit-pk-d1', pkstart, 1, 'lite', KINDS)
    if tier == 'quick':
        # an evolution that also deletes a model (the residual difference of
        # a dropped DeleteModel is a model that only the simulation has)
        add('two-model-delmodel-d2', two, 2, 'lite', ('AddField',
                                                      'DeleteModel'))
        add('narrow-d2', narrow, 2, 'lite', KINDS)
        # three steps over the tiny alphabet (an add/delete pair that the
        # pre-processor collapses, next to a real change)
        add('narrow-tiny-d3', narrow, 3, 'tiny',
            ('AddField', 'DeleteField', 'ChangeField'))
        add('narrow-full-d1', narrow, 1, 'full', KINDS)
        add('two-model-d1', two, 1, 'full', KINDS + ('DeleteModel',))
    else:
        add('narrow-d3', narrow, 3, 'lite', KINDS)
        add('narrow-full-d2', narrow, 2, 'full', KINDS)
        add('two-model-d2', two, 2, 'lite', KINDS + ('DeleteModel',))
    return tasks


def run(tier, seed, confirm=True):
    t0 = time.time()
    tasks = tasks_for(tier)
    total = {}
    coll = findings.Collector(PROP)
    for stats, viol in explore.run_tasks('vf.checks.c12.work', tasks,
                                         seed=seed, progress=200):
        common.merge_stats(total, stats)
        coll.merge(viol)
    coverage = {
        'evaluations': total['cases'],
        'distinct_nontrivial': total['runs'],
        'rule': 'every reference-valid evolution of the stated '
                'alphabets/depths x every perturbation operator at every '
                'position; the reference model decides whether the '
                'perturbed evolution is still equivalent (skipped), '
                'definitely non-equivalent (must be rejected) or '
                'reference-invalid (if rejected, must be clean); '
                'non-trivial = perturbed evolutions actually run through '
                '`evolve --execute --noinput` (all distinct by '
                'construction)',
        'samples': total['samples'][:3],
        'exhaustive': True,
        'programs': total['programs'],
        'verdicts': {k[8:]: v for k, v in total.items()
                     if k.startswith('verdict_')},
        'rejected_runs': total['rejected'],
        'accepted_reference_invalid': total['accepted_undetermined'],
    }
    print('C12 %s: %d programs, %d perturbed evolutions (%s), %d command '
          'runs, %d rejected' % (tier, total['programs'], total['cases'],
                                 coverage['verdicts'], total['runs'],
                                 total['rejected']))
    return common.finish(PROP, tier, seed, 'exploration', coverage, coll,
                         t0, confirm=confirm, assumptions=[
        'equivalence of a perturbed evolution is decided by the reference '
        'semantics, never by the implementation under test'])


def replay(path):
    doc = common.load_replay(path)
    r = doc['replay']
    steps = [tuple(s) for s in r['steps']]
    pert = [tuple(s) for s in r['perturbed']]
    target = r['start']
    for label, mj in steps:
        target = ML.apply(target, label, mj)
    found = {}

    def add(fp, replay, detail):
        found[fp] = detail
    stats = {'cases': 0, 'runs': 0, 'rejected': 0, 'unbuildable': 0,
             'accepted_undetermined': 0}
    run_case(r['start'], target, steps, r['operator'], r['position'], pert,
             stats, add)
    for fp, d in found.items():
        print('  %s %s' % (fp, str(d)[:500]))
    if doc['fingerprint'] in found:
        print('REPRODUCED %s' % doc['fingerprint'])
        return 1
    print('NOT-REPRODUCED')
    return 0
