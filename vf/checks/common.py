"""Shared plumbing for check modules."""
import json
import os
import subprocess
import sys
import time

from vf import evidence, findings, explore

VERIF = os.path.dirname(os.path.dirname(os.path.dirname(
    os.path.abspath(__file__))))


def merge_stats(total, s):
    for k, v in s.items():
        if isinstance(v, bool):
            total[k] = total.get(k, False) or v
        elif isinstance(v, (int, float)):
            if k.startswith('max_'):
                total[k] = max(total.get(k, 0), v)
            else:
                total[k] = total.get(k, 0) + v
        elif isinstance(v, dict):
            merge_stats(total.setdefault(k, {}), v)
        elif isinstance(v, list):
            cur = total.setdefault(k, [])
            for x in v:
                if len(cur) < 6:
                    cur.append(x)
    return total


def confirm_in_fresh_interpreter(prop):
    """Replay guard: the exemplar must reproduce its fingerprint in a brand
    new interpreter."""
    def confirm(path):
        env = dict(os.environ)
        env.setdefault('PYTHONHASHSEED', '0')
        p = subprocess.run([os.path.join(VERIF, 'vcheck'), prop, '--replay',
                            path], capture_output=True, text=True, env=env,
                           timeout=600)
        return 'REPRODUCED' in p.stdout
    return confirm


def finish(prop, tier, seed, level, coverage, collector, t0, assumptions=(),
           confirm=True):
    code, unlisted = collector.report(
        confirm=confirm_in_fresh_interpreter(prop) if confirm else None)
    coverage = dict(coverage)
    coverage['violating_cases'] = collector.total()
    coverage['fingerprints'] = {fp: e['count']
                                for fp, e in sorted(collector.by_fp.items())}
    evidence.write(prop, tier, seed, level, coverage, time.time() - t0,
                   violations=unlisted, assumptions=assumptions)
    return code


def load_replay(path):
    with open(path) as fp:
        doc = json.load(fp)
    return doc
