"""C05 - the hinted evolution for a model change fully resolves that change.

Exhaustive over ordered pairs (old, new) of model sets: (a) FM x FM for one
field, (b) MM x MM for one model (incl. reordered lists), (c) every start
spec of S1/S2/S3 against each of its depth-1 successors, both directions,
(d) signature-level variants that only differ in representation (explicit
defaults, tuple vs list, reordered index/constraint lists), (e) the hinted
evolution executed through Evolver(hinted=True) on a real database (one and
two apps, label equal to / different from the package name)."""
import itertools
import time

from vf import spec as S, starts, mutlang as ML, alphabet as AL
from vf import refstate as R, materialize as MZ, findings, explore
from vf import drivers as D, bootstrap as B, engine_b as EB, observe as O
from vf.spec import F, M, A, P
from vf.checks import common, c03

PROP = 'C05'

FM = [
    ('Char20', F('x', 'Char', max_length=20)),
    ('Char20null', F('x', 'Char', max_length=20, null=True)),
    ('Char20unique', F('x', 'Char', max_length=20, unique=True)),
    ('Char30idx', F('x', 'Char', max_length=30, db_index=True)),
    ('Textnull', F('x', 'Text', null=True)),
    ('Int', F('x', 'Int')),
    ('Intnull', F('x', 'Int', null=True)),
    ('Intidx', F('x', 'Int', db_index=True)),
    ('Intcol', F('x', 'Int', db_column='custom_col')),
    ('BigIntnull', F('x', 'BigInt', null=True)),
    ('PosIntnull', F('x', 'PosInt', null=True)),
    ('Bool', F('x', 'Bool')),
    ('Decimal52null', F('x', 'Decimal', max_digits=5, decimal_places=2,
                        null=True)),
    ('Decimal73null', F('x', 'Decimal', max_digits=7, decimal_places=3,
                        null=True)),
    ('DateTimenull', F('x', 'DateTime', null=True)),
    ('FK-Other', F('x', 'FK', to='va.Other')),
    ('FK-Othernull', F('x', 'FK', to='va.Other', null=True)),
    ('FK-Third', F('x', 'FK', to='va.Third', null=True)),
    ('O2O-Othernull', F('x', 'O2O', to='va.Other', null=True)),
    ('FK-Othernull-noidx', F('x', 'FK', to='va.Other', null=True,
                             db_index=False)),
    ('M2M-Other', F('x', 'M2M', to='va.Other')),
    ('M2M-Other-tbl', F('x', 'M2M', to='va.Other', db_table='custom_m2m')),
    ('absent', None),
]


def fm_project(fs):
    fields = [F('a', 'Char', max_length=20)]
    if fs is not None:
        fields.append(S.clone(fs))
    return P(A('va', [M('Other', [F('name', 'Char', max_length=20)]),
                      M('Third', [F('name', 'Char', max_length=20)]),
                      M('Item', fields)]))


MMX = list(starts.MM) + [
    ('ut2', {'unique_together': [['a', 'b'], ['b', 'c']]}),
    ('ut2r', {'unique_together': [['b', 'c'], ['a', 'b']]}),
    ('utr', {'unique_together': [['b', 'a']]}),
    ('it2', {'index_together': [['a', 'b'], ['b', 'c']]}),
    ('idx-two', {'indexes': [{'fields': ['a'], 'name': 'i1'},
                             {'fields': ['b'], 'name': 'i2'}]}),
    ('idx-two-r', {'indexes': [{'fields': ['b'], 'name': 'i2'},
                               {'fields': ['a'], 'name': 'i1'}]}),
    ('con-two', {'constraints': [
        {'type': 'check', 'name': 'ck_b', 'check': [['b__gte', 0]]},
        {'type': 'unique', 'name': 'uc_ab', 'fields': ['a', 'b']}]}),
    ('con-two-r', {'constraints': [
        {'type': 'unique', 'name': 'uc_ab', 'fields': ['a', 'b']},
        {'type': 'check', 'name': 'ck_b', 'check': [['b__gte', 0]]}]}),
    ('ut+idx', {'unique_together': [['a', 'b']],
                'indexes': [{'fields': ['c']}]}),
    ('ut1', {'unique_together': [['a']]}),
    ('it1', {'index_together': [['a']]}),
    ('ut1+ut2', {'unique_together': [['a'], ['b', 'c']]}),
]

# extra start specs for the successor pairs: together-entries of one field
# (a neighbouring field can be deleted without touching the entry)
EXTRA_STARTS = [
    ('X-ut1', P(A('va', [M('Item', S.clone(starts.FIELDSETS['V1']),
                           unique_together=[['a']])]))),
    ('X-it1', P(A('va', [M('Item', S.clone(starts.FIELDSETS['V1']),
                           index_together=[['a']])]))),
    ('X-ut1+ut2', P(A('va', [M('Item', S.clone(starts.FIELDSETS['V1']),
                               unique_together=[['a'], ['b', 'c']])]))),
]


def _other_names(meta):
    """Index/constraint names are database-wide: the second model's named
    entries get their own names (and its own table)."""
    m = S.clone(meta)
    for prop in ('indexes', 'constraints'):
        for ent in m.get(prop, []):
            if ent.get('name'):
                ent['name'] = ent['name'] + '_o'
    if m.get('db_table'):
        m['db_table'] = m['db_table'] + '_o'
    return m


def mm2_project(meta_item, meta_other):
    """Two models of ONE app, both with the V1 fields, each with its own
    Meta options (hinted Meta changes of one model must not leak into the
    other's)."""
    return P(A('va', [M('Item', S.clone(starts.FIELDSETS['V1']),
                        **S.clone(meta_item)),
                      M('Other', S.clone(starts.FIELDSETS['V1']),
                        **_other_names(meta_other))]))


def mm_project(meta):
    return P(A('va', [M('Item', S.clone(starts.FIELDSETS['V1']),
                        **S.clone(meta))]))


def initial_for(mutation, project):
    """Domain value for a hinted mutation that needs user input."""
    from django.db import models
    ftype = getattr(mutation, 'field_type', None)
    if ftype is None:
        # ChangeField: look the field type up in the new project
        for label, m in S.iter_models(project):
            if m['name'] == mutation.model_name:
                f = S.get_field(m, mutation.field_name)
                if f is not None:
                    ftype = S.field_class(f['type'])
    if ftype is not None and issubclass(ftype, (models.CharField,
                                                 models.TextField)):
        return 'x'
    if ftype is not None and issubclass(ftype, models.DateTimeField):
        return '2020-01-01 00:00:00'
    return 1


def check_pair(kind, name, old_p, new_p, add, stats):
    from django_evolution.diff import Diff
    from django_evolution.db.state import DatabaseState
    from django_evolution.placeholders import BasePlaceholder
    stats['pairs'] += 1
    old_sig = R.load_sig(R.fresh(old_p)['sig'])
    new_sig = R.load_sig(R.fresh(new_p)['sig'])
    MZ.install(new_p)
    replay = {'kind': kind, 'name': name, 'old': old_p, 'new': new_p}
    try:
        diff = Diff(old_sig, new_sig)
        hint = diff.evolution()
    except Exception as e:
        add('C05|hint-raises|%s|%s' % (type(e).__name__, kind), replay,
            {'error': str(e)[:300]})
        return
    if diff.is_empty(ignore_apps=False):
        stats['identical'] += 1
    sim = old_sig.clone()
    state = DatabaseState('default', scan=False)
    n_mut = 0
    try:
        for label, muts in hint.items():
            for m in muts:
                n_mut += 1
                if isinstance(getattr(m, 'initial', None), BasePlaceholder):
                    stats['needs_user_input'] += 1
                    m.initial = initial_for(m, new_p)
                m.run_simulation(app_label=label, project_sig=sim,
                                 database_state=state, database='default')
    except Exception as e:
        add('C05|hint-simulation-raises|%s|%s' % (type(e).__name__,
                                                 hint_shape(hint)), replay,
            {'error': str(e)[:300], 'hint': str(hint)[:400]})
        return
    if n_mut:
        stats['nontrivial'] += 1
    stats['mutations'] += n_mut
    rest = Diff(sim, new_sig)
    if not rest.is_empty(ignore_apps=False):
        add('C05|hint-does-not-resolve|%s|%s' % (
            '+'.join(c03.norm_diff(str(rest)))[:100], hint_shape(hint)),
            replay, {'residual': str(rest)[:300], 'hint': str(hint)[:400]})
    # self / clone
    for s in (old_sig, new_sig):
        if not Diff(s, s).is_empty(ignore_apps=False) or \
                not Diff(s, s.clone()).is_empty(ignore_apps=False) or \
                not (s == s.clone()):
            add('C05|self-or-clone-differs|%s' % kind, replay, {})
    eq_vs_diff(old_sig, new_sig, kind, replay, add, stats)


def eq_vs_diff(a, b, kind, replay, add, stats):
    from django_evolution.diff import Diff
    stats['eq_checks'] += 1
    try:
        eq = (a == b)
        empty = Diff(a, b).is_empty(ignore_apps=False) and \
            Diff(b, a).is_empty(ignore_apps=False)
    except Exception as e:
        add('C05|eq-or-diff-raises|%s|%s' % (type(e).__name__, kind),
            replay, {'error': str(e)[:200]})
        return
    if eq != empty:
        add('C05|eq-disagrees-with-diff|%s|%s|%s' % (
            'equal-but-diff-non-empty' if eq else
            'diff-empty-but-not-equal', kind, sig_delta(a, b)), replay, {})


def sig_delta(a, b):
    """Where do the two serialised signatures differ?  Abstract paths
    (names of apps/models/fields erased), e.g. 'fields.*.field_attrs.null'
    or 'meta.db_table' - the root-cause part of an eq-vs-diff
    fingerprint."""
    out = set()

    def walk(x, y, path):
        if isinstance(x, dict) and isinstance(y, dict):
            for k in sorted(set(x) | set(y), key=str):
                if k not in x or k not in y:
                    present = x.get(k, y.get(k))
                    if isinstance(present, dict) and present:
                        walk(x.get(k, {}), y.get(k, {}), path + [str(k)])
                    else:
                        out.add('%s=%r:only-one-side' % (
                            '.'.join(path + [str(k)]), present))
                else:
                    walk(x[k], y[k], path + [str(k)])
        elif isinstance(x, (list, tuple)) and isinstance(y, (list, tuple)):
            if len(x) != len(y):
                out.add('.'.join(path) + ':length')
            elif list(x) != list(y):
                if sorted(map(repr, x)) == sorted(map(repr, y)):
                    out.add('.'.join(path) + ':order')
                else:
                    for i, (p, q) in enumerate(zip(x, y)):
                        walk(p, q, path + ['[]'])
        elif x != y:
            out.add('.'.join(path))
    try:
        sa, sb = a.serialize(), b.serialize()
    except Exception:
        return 'delta:unserialisable'
    for app in sorted(set(sa.get('apps', {})) | set(sb.get('apps', {}))):
        xa = sa.get('apps', {}).get(app)
        xb = sb.get('apps', {}).get(app)
        if xa is None or xb is None:
            out.add('app:only-one-side')
            continue
        for k in sorted(set(xa) | set(xb)):
            if k != 'models':
                if xa.get(k) != xb.get(k):
                    out.add('app.' + k)
                continue
            ma, mb = xa.get('models', {}), xb.get('models', {})
            for mn in sorted(set(ma) | set(mb)):
                if mn not in ma or mn not in mb:
                    out.add('model:only-one-side')
                    continue
                for mk in sorted(set(ma[mn]) | set(mb[mn])):
                    va, vb = ma[mn].get(mk), mb[mn].get(mk)
                    if mk == 'fields' and isinstance(va, dict) and \
                            isinstance(vb, dict):
                        for fn in sorted(set(va) | set(vb)):
                            if fn not in va or fn not in vb:
                                out.add('field:only-one-side')
                            else:
                                ft = str(va[fn].get('type', '')).split(
                                    '.')[-1]
                                walk(va[fn], vb[fn], ['fields.' + ft])
                    elif va != vb:
                        walk(va, vb, [mk])
    return 'delta:' + ','.join(sorted(out)) if out else 'delta:none'


def hint_shape(hint):
    kinds = []
    for label, muts in hint.items():
        for m in muts:
            k = type(m).__name__
            if k == 'ChangeField':
                k += '(%s%s)' % ('+'.join(sorted(m.field_attrs)),
                                 '+type' if m.field_type else '')
            elif k == 'ChangeMeta':
                k += '(%s)' % m.prop_name
            elif k == 'AddField':
                k += '(%s)' % m.field_type.__name__
            if k not in kinds:
                kinds.append(k)
    return '+'.join(sorted(kinds))


def variants():
    """(name, sig_a, sig_b): representation-only variants of one signature
    (must be equal AND have an empty diff)."""
    from django.db import models
    from vf.checks import c06
    from django_evolution.signature import FieldSignature, IndexSignature
    out = []
    base = lambda extra=(): c06.project_of(c06.base_model_sig(extra))
    for attr, val in (('null', False), ('db_index', False),
                      ('unique', False), ('primary_key', False),
                      ('db_column', None), ('max_length', None)):
        a = base([FieldSignature('x', models.IntegerField, {})])
        b = base([FieldSignature('x', models.IntegerField, {attr: val})])
        out.append(('explicit-default:%s' % attr, a, b))
    a = base([FieldSignature('x', models.ForeignKey, {},
                             related_model='va.Item')])
    b = base([FieldSignature('x', models.ForeignKey, {'db_index': True},
                             related_model='va.Item')])
    out.append(('explicit-default:fk-db_index', a, b))
    # NOT a representation variant: a relation without its index differs
    # from the default (equality and difference must agree on that)
    for cls in (models.ForeignKey, models.OneToOneField):
        a = base([FieldSignature('x', cls, {}, related_model='va.Item')])
        b = base([FieldSignature('x', cls, {'db_index': False},
                                 related_model='va.Item')])
        out.append(('non-default:%s-db_index-False' % cls.__name__, a, b))
    for prop in ('unique_together', 'index_together'):
        a, b = base(), base()
        setattr(list(list(a.app_sigs)[0].model_sigs)[0], prop, [('a', 'b')])
        setattr(list(list(b.app_sigs)[0].model_sigs)[0], prop, [['a', 'b']])
        out.append(('tuple-vs-list:%s' % prop, a, b))
    i1 = IndexSignature(fields=['a'], name='i1')
    i2 = IndexSignature(fields=['b'], name='i2')
    a, b = base(), base()
    ma = list(list(a.app_sigs)[0].model_sigs)[0]
    mb = list(list(b.app_sigs)[0].model_sigs)[0]
    ma.add_index_sig(i1.clone()), ma.add_index_sig(i2.clone())
    mb.add_index_sig(i2.clone()), mb.add_index_sig(i1.clone())
    out.append(('reordered-indexes', a, b))
    a, b = base(), base()
    list(list(a.app_sigs)[0].model_sigs)[0].add_index_sig(
        IndexSignature(fields=['a'], name=None))
    list(list(b.app_sigs)[0].model_sigs)[0].add_index_sig(
        IndexSignature(fields=['a'], name=''))
    out.append(('index-name-None-vs-empty', a, b))
    # the same attributes written in another order (dictionaries built by
    # deconstruct() vs. by a loaded evolution file)
    from django_evolution.signature import ConstraintSignature
    from django.db.models import Q
    attr_sets = [
        [('fields', ('a',)), ('condition', Q(b__gt=0))],
        [('fields', ('a',)), ('include', ('b',)), ('condition', Q(b__gt=0))],
    ]
    for n, items in enumerate(attr_sets):
        a, b = base(), base()
        for proj, its in ((a, items), (b, list(reversed(items)))):
            ms = list(list(proj.app_sigs)[0].model_sigs)[0]
            ms.add_constraint_sig(ConstraintSignature(
                name='uq_r', constraint_type=models.UniqueConstraint,
                attrs=dict(its)))
        out.append(('reordered-constraint-attrs-%d' % n, a, b))
        a, b = base(), base()
        for proj, its in ((a, items), (b, list(reversed(items)))):
            ms = list(list(proj.app_sigs)[0].model_sigs)[0]
            d = dict(its)
            ms.add_index_sig(IndexSignature(
                name='ix_r', fields=list(d.pop('fields')), attrs=d))
        out.append(('reordered-index-attrs-%d' % n, a, b))
    return out


def exec_starts():
    """Start projects for the hinted-execution family: one and two apps,
    with the label equal to / different from the package name."""
    out = []
    n = c03.narrow_start()
    out.append(('narrow', n))
    pkg = S.clone(n)
    pkg['apps'][0]['package'] = 'vapkg'
    out.append(('narrow-pkg', pkg))
    t = c03.two_model_start()
    out.append(('two-model', t))
    tp = S.clone(t)
    tp['apps'][-1]['package'] = tp['apps'][-1]['label'] + 'pkg'
    out.append(('two-model-pkg', tp))
    return out


def check_exec(name, old_p, new_p, mj, add, stats):
    """The hinted evolution run the way `evolve --hint --execute` runs it:
    Evolver(hinted=True) over all apps, on a database installed from the
    old models.  If the run succeeds, nothing may be left to resolve and
    the schema must be the one of the new models."""
    from django_evolution.evolve import Evolver
    from django_evolution.placeholders import BasePlaceholder
    from django_evolution.diff import Diff
    stats['exec_pairs'] = stats.get('exec_pairs', 0) + 1
    replay = {'kind': 'exec', 'name': name, 'old': old_p, 'new': new_p}
    img = D.baseline(old_p)
    MZ.install(new_p)
    B.restore(img, 'default')
    B.reset_globals()
    try:
        ev = Evolver(hinted=True)
        ev.queue_evolve_all_apps()
        hint = ev.initial_diff.evolution()
        if any(isinstance(getattr(m, 'initial', None), BasePlaceholder)
               for muts in hint.values() for m in muts):
            stats['exec_needs_user_input'] = \
                stats.get('exec_needs_user_input', 0) + 1
            return
        ev.evolve()
    except Exception as e:  # noqa
        D._abort_transactions('default')
        stats['exec_failed'] = stats.get('exec_failed', 0) + 1
        return
    stats['exec_ok'] = stats.get('exec_ok', 0) + 1
    ok, diffs = EB.stored_vs_current()
    if not ok:
        add('C05|hinted-execution-leaves-difference|%s|%s' % (
            '+'.join(c03.norm_diff(diffs[0] + diffs[1]))[:100],
            c03.abstract_path([mj])), replay, {'residual': diffs[0][:300]})
        return
    ent = R.fresh(new_p)
    if O.schema_dump('default', skip=c03.SKIP_TABLES) != ent['schema']:
        add('C05|hinted-execution-schema-differs|%s|%s' % (
            name.split('+')[0], c03.abstract_path([mj])), replay, {})


def work(task):
    kind, payload = task
    stats = {'pairs': 0, 'identical': 0, 'nontrivial': 0, 'mutations': 0,
             'needs_user_input': 0, 'eq_checks': 0, 'samples': []}
    viol = {}

    def add(fp, replay, detail):
        size = len(S.canon(replay)) if isinstance(replay, dict) else 0
        ent = viol.get(fp)
        if ent is None:
            viol[fp] = {'count': 1, 'exemplar': replay, 'detail': detail,
                        'size': size}
        else:
            ent['count'] += 1
            if size < ent['size']:
                ent.update(exemplar=replay, detail=detail, size=size)
    if kind == 'fm':
        i = payload
        n1, f1 = FM[i]
        for n2, f2 in FM:
            check_pair('field', '%s->%s' % (n1, n2), fm_project(f1),
                       fm_project(f2), add, stats)
        stats['samples'].append('field %s -> *' % n1)
    elif kind == 'mm':
        i = payload
        n1, m1 = MMX[i]
        for n2, m2 in MMX:
            check_pair('meta', '%s->%s' % (n1, n2), mm_project(m1),
                       mm_project(m2), add, stats)
        stats['samples'].append('meta %s -> *' % n1)
    elif kind == 'mm2':
        i = payload
        n1, m1 = MMX[i]
        none = {}
        for n2, m2 in MMX:
            # both models change at once: Item none->m1, Other none->m2
            check_pair('meta2', 'none,none->%s,%s' % (n1, n2),
                       mm2_project(none, none), mm2_project(m1, m2), add,
                       stats)
            # ... and Item m1->m2 while Other m2->m1
            check_pair('meta2', '%s,%s->%s,%s' % (n1, n2, n2, n1),
                       mm2_project(m1, m2), mm2_project(m2, m1), add, stats)
        stats['samples'].append('two models, meta %s x *' % n1)
    elif kind == 'succ':
        name, project, level = payload
        for label, mj in AL.enabled(project, level=level):
            if mj[0] in ('RenameAppLabel', 'DeleteApplication',
                         'SQLBarrier'):
                continue
            p2 = ML.apply(project, label, mj)
            check_pair('successor', '%s+%s' % (name, mj[0]), project, p2,
                       add, stats)
            check_pair('predecessor', '%s-%s' % (name, mj[0]), p2, project,
                       add, stats)
        stats['samples'].append('successors of %s' % name)
    elif kind == 'exec':
        name, project = payload
        for label, mj in AL.enabled(project, level='lite'):
            if mj[0] in ('RenameAppLabel', 'DeleteApplication',
                         'SQLBarrier', 'RenameModel', 'RenameField'):
                # (renames are hinted as delete + add: another evolution)
                continue
            p2 = ML.apply(project, label, mj)
            check_exec('%s+%s' % (name, mj[0]), project, p2, (label, mj),
                       add, stats)
        stats['samples'].append('hinted execution from %s' % name)
    elif kind == 'variants':
        for name, a, b in variants():
            stats['pairs'] += 1
            eq_vs_diff(a, b, 'variant:' + name,
                       {'kind': 'variant', 'name': name}, add, stats)
        stats['samples'].append('representation variants')
    return stats, viol


def run(tier, seed, confirm=True):
    t0 = time.time()
    tasks = [('fm', i) for i in range(len(FM))] + \
        [('mm', i) for i in range(len(MMX))] + \
        [('mm2', i) for i in range(len(MMX))] + [('variants', None)]
    level = 'lite' if tier == 'quick' else 'full'
    for name, p in starts.s1() + starts.s2() + starts.s3() + EXTRA_STARTS:
        tasks.append(('succ', (name, p, level)))
    for name, p in exec_starts():
        tasks.append(('exec', (name, p)))
    total = {}
    coll = findings.Collector(PROP)
    for stats, viol in explore.run_tasks('vf.checks.c05.work', tasks,
                                         seed=seed):
        common.merge_stats(total, stats)
        coll.merge(viol)
    coverage = {
        'evaluations': total['pairs'],
        'distinct_nontrivial': total['nontrivial'],
        'rule': 'ordered pairs (old, new): all %d x %d single-field '
                'variants (every tracked attribute alone and combined, type '
                'changes, relation re-targeting, field added/removed), all '
                '%d x %d Meta variants (incl. reordered lists), every start '
                'spec of S1/S2/S3 with each depth-1 successor in both '
                'directions, and representation-only variants; non-trivial '
                '= the hint contains at least one mutation' % (
                    len(FM), len(FM), len(MMX), len(MMX)),
        'samples': total['samples'][:5],
        'exhaustive': True,
        'hinted_mutations_total': total['mutations'],
        'pairs_needing_user_input_placeholder': total['needs_user_input'],
        'eq_vs_diff_checks': total['eq_checks'],
        'identical_pairs': total['identical'],
        'hinted_executions_through_the_evolver': {
            'pairs': total.get('exec_pairs', 0),
            'executed_and_judged': total.get('exec_ok', 0),
            'run_failed_left_to_C01': total.get('exec_failed', 0),
            'needs_user_input': total.get('exec_needs_user_input', 0)},
    }
    print('C05 %s: %d pairs (%d non-trivial hints, %d mutations), %d '
          'eq-vs-diff checks' % (tier, total['pairs'], total['nontrivial'],
                                 total['mutations'], total['eq_checks']))
    return common.finish(PROP, tier, seed, 'exploration', coverage, coll,
                         t0, confirm=confirm, assumptions=[
        'placeholders (values that need user input) are replaced by a domain '
        'value before simulating',
        'model additions are created by the evolver, not hinted'])


def replay(path):
    doc = common.load_replay(path)
    r = doc['replay']
    found = {}

    def add(fp, replay, detail):
        found[fp] = detail
    stats = {'pairs': 0, 'identical': 0, 'nontrivial': 0, 'mutations': 0,
             'needs_user_input': 0, 'eq_checks': 0}
    if r.get('kind') == 'variant':
        st, viol = work(('variants', None))
        found = {fp: e['detail'] for fp, e in viol.items()}
    elif r.get('kind') == 'exec':
        mj = None
        for label, cand in AL.enabled(r['old'], level='lite'):
            try:
                if S.canon(ML.apply(r['old'], label, cand)) == \
                        S.canon(r['new']):
                    mj = (label, cand)
            except ML.Disabled:
                pass
        check_exec(r['name'], r['old'], r['new'], mj, add, stats)
    else:
        check_pair(r['kind'], r['name'], r['old'], r['new'], add, stats)
    for fp, d in found.items():
        print('  %s %s' % (fp, str(d)[:400]))
    if doc['fingerprint'] in found:
        print('REPRODUCED %s' % doc['fingerprint'])
        return 1
    print('NOT-REPRODUCED')
    return 0
