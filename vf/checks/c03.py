"""C03 - optimising a mutation sequence never changes its outcome, and
C18 - batched changes rewrite each table no more than unbatched.

Engine A *path* enumeration (no de-duplication): every sequence of length
<= d over the enabled-mutation alphabet, each run several ways from the same
database snapshot:

  W1  one AppMutator per mutation (DatabaseState rescanned in between)  [ref]
  W2  one AppMutator for the whole list
  W5  W2 again with the *same mutation objects* (definitions not altered)
  W3  real Evolver + EvolveAppTask, the sequence as a single evolution
      (prepare() then _build_batches(): the optimiser runs twice)
  W4  (thorough) Evolver with one evolution per mutation

Domain: paths whose W1 run succeeds, agrees with the reference model and
equals the freshly created schema at every step (anything else belongs to
C01).  Every violating path is minimised (greedy removal of steps while the
same discrepancy persists) and fingerprinted by its abstracted minimal core.

C18 is decided on the statement traces of W1 and W2/W3 of the same paths."""
import os
import time

from vf import spec as S, mutlang as ML, observe as O, bootstrap as B
from vf import refstate as R, drivers as D, alphabet as AL, materialize as MZ
from vf import findings, explore
from vf.spec import F, M, A, P
from vf.checks import common

MERGEABLE_KINDS = ('AddField', 'DeleteField', 'ChangeField', 'ChangeMeta')
SKIP_TABLES = O.BOOKKEEPING_TABLES + ('django_content_type',)
NARROW_KINDS = ('AddField', 'DeleteField', 'RenameField', 'ChangeField',
                'ChangeMeta')
REUSE_KINDS = ('AddField', 'DeleteField', 'RenameField', 'ChangeField')


def narrow_start():
    return P(A('va', [M('Item', [F('a', 'Char', max_length=20),
                                 F('b', 'Int', null=True)])]))


def two_model_start():
    return P(A('va', [
        M('Author', [F('name', 'Char', max_length=20)]),
        M('Book', [F('title', 'Char', max_length=20),
                   F('author', 'FK', to='va.Author', null=True)])]))


def three_field_start():
    return P(A('va', [M('Item', [F('a', 'Char', max_length=20),
                                 F('b', 'Int'), F('c', 'Int', null=True)])]))


def columns_start():
    """Column names that differ from the field names: a custom db_column
    (indexed) and a relation."""
    return P(A('va', [
        M('Author', [F('name', 'Char', max_length=20)]),
        M('Book', [F('title', 'Char', max_length=20,
                     db_column='custom_title', db_index=True),
                   F('author', 'FK', to='va.Author', null=True)])]))


def explicit_pk_start():
    """A referenced model with an explicit primary key (which can be
    renamed) and a model referring to it."""
    # the referring model sorts BEFORE the referenced one (operations are
    # regrouped per model in name order)
    return P(A('va', [
        M('Person', [F('code', 'Int', primary_key=True),
                     F('name', 'Char', max_length=20),
                     F('boss', 'FK', to='va.Person', null=True)]),
        M('Book', [F('title', 'Char', max_length=20),
                   F('owner', 'FK', to='va.Person', null=True)]),
        M('Zine', [F('owner', 'FK', to='va.Person', null=True)])]))


def indexed_start():
    """Fields that already carry a unique constraint / an index, so that
    the *removing* attribute changes are in the menu from the first step."""
    return P(A('va', [M('Item', [F('a', 'Char', max_length=20, unique=True),
                                 F('b', 'Int', db_index=True),
                                 F('c', 'Int', null=True),
                                 F('d', 'Decimal', max_digits=5,
                                   decimal_places=2, null=True)])]))


# ------------------------------------------------------------ observations

def observe_db():
    return (O.schema_dump('default', skip=SKIP_TABLES),
            O.row_dump('default', skip=SKIP_TABLES))


def sub_sig(sig, labels):
    from django_evolution.signature import ProjectSignature
    sub = ProjectSignature()
    for l in labels:
        a = sig.get_app_sig(l)
        if a is not None:
            sub.add_app_sig(a.clone())
    return sub


def jsonable(x):
    import json
    return json.loads(json.dumps(x, default=str))


def norm_msg(msg):
    import re
    msg = re.sub(r'"[^"]*"', '"_"', msg)
    msg = re.sub(r"'[^']*'", "'_'", msg)
    msg = re.sub(r'(no such column|no such index|no such table): \S+',
                 r'\1: _', msg)
    msg = re.sub(r'\b[a-z0-9]+_[a-z0-9_]+\b', '_', msg)
    return msg[:90]


def norm_diff(text):
    import re
    out = []
    for line in text.splitlines():
        line = line.strip()
        if line.startswith(('In model', 'In field', 'In app')):
            continue
        line = re.sub(r"Field '[^']*'", 'Field', line)
        line = re.sub(r'The model \S+', 'The model', line)
        out.append(line.replace(' ', '-'))
    return out


def row_discrepancies(got, ref):
    out = []
    for t in sorted(set(got) | set(ref)):
        if t not in got or t not in ref:
            out.append(('rows:table-set', t))
            continue
        g, r = got[t], ref[t]
        if g['cols'] != r['cols']:
            out.append(('rows:column-set', t))
            continue
        if len(g['rows']) != len(r['rows']):
            out.append(('rows:row-count', t))
            continue
        cols = g['cols']

        def keyed(rows):
            if 'id' in cols:
                i = cols.index('id')
                return {row[i]: row for row in rows}
            return dict(enumerate(rows))
        gk, rk = keyed(g['rows']), keyed(r['rows'])
        bad = False
        for k in rk:
            if k not in gk:
                out.append(('rows:row-identity', t))
                break
            for ci, c in enumerate(cols):
                if gk[k][ci] != rk[k][ci]:
                    bad = True
        if bad:
            out.append(('rows:value', t))
    return out


# ------------------------------------------------------ path abstraction

def abstract_path(path):
    """Names and literal values erased; field/model identities kept as
    f0,f1../m0,m1.. (identity follows renames)."""
    fid, mid = {}, {}

    def model_id(name):
        if name not in mid:
            mid[name] = 'm%d' % len(set(mid.values()))
        return mid[name]

    def field_id(model, name):
        key = (model_id(model), name)
        if key not in fid:
            fid[key] = 'f%d' % len(set(fid.values()))
        return fid[key]

    out = []
    for _label, mj in path:
        k = mj[0]
        if k == 'AddField':
            attrs = mj[4]
            flags = [mj[3] if mj[3] in ('FK', 'O2O', 'M2M') else 'col']
            if mj[3] in ('FK', 'O2O', 'M2M') and attrs.get('to'):
                # where the relation points: the owning model itself or
                # another model (identity follows renames)
                owner = model_id(mj[1])
                target = model_id(attrs['to'].split('.')[-1])
                flags[0] += '>self' if target == owner else '>' + target
            for a in ('db_index', 'unique', 'db_column'):
                if attrs.get(a):
                    flags.append(a)
            if mj[5] is not None:
                flags.append('init-callable' if isinstance(mj[5], dict)
                             else 'init')
            out.append('Add(%s:%s)' % (field_id(mj[1], mj[2]),
                                       ','.join(flags)))
        elif k == 'DeleteField':
            out.append('Del(%s)' % field_id(mj[1], mj[2]))
        elif k == 'RenameField':
            f = field_id(mj[1], mj[2])
            fid[(model_id(mj[1]), mj[3])] = f
            opts = [o for o, v in sorted((mj[4] or {}).items()) if v]
            out.append('Ren(%s%s)' % (f, ',' + ','.join(opts) if opts
                                      else ''))
        elif k == 'ChangeField':
            parts = []
            for a, v in sorted(mj[3].items()):
                if isinstance(v, bool) or v is None:
                    parts.append('%s=%s' % (a, v))
                else:
                    parts.append(a)
            if mj[4] is not None:
                parts.append('init')
            if mj[5] == 'Char':
                # the alphabet never changes a type *to* Char: this is a
                # ChangeField that restates the field's current type
                parts.append('same-field_type')
            elif mj[5]:
                parts.append('type')
            out.append('Chg(%s:%s)' % (field_id(mj[1], mj[2]),
                                       ','.join(parts)))
        elif k == 'ChangeMeta':
            val = mj[3]
            names = []
            for e in val:
                if isinstance(e, list):
                    names.append('[%s]' % ','.join(
                        field_id(mj[1], n) for n in e))
                else:
                    names.append('{%s%s%s}' % (
                        ','.join(('-' if n.startswith('-') else '') +
                                 field_id(mj[1], n.lstrip('-'))
                                 for n in e.get('fields', [])),
                        ',cond' if e.get('condition') or e.get('check')
                        else '', ',' + e['type'] if e.get('type') else ''))
            out.append('Meta(%s:%s=%s)' % (model_id(mj[1]), mj[2],
                                           ''.join(names) or 'empty'))
        elif k == 'RenameModel':
            m = model_id(mj[1])
            mid[mj[2]] = m
            out.append('RenModel(%s)' % m)
        elif k == 'DeleteModel':
            out.append('DelModel(%s)' % model_id(mj[1]))
        elif k == 'SQLRaw':
            out.append('SQLRaw')
        else:
            out.append(k)
    return ' ; '.join(out)


def has_name_reuse(path):
    """Does a step introduce a field name (AddField, RenameField target)
    that an earlier, different field of the model used on this path?"""
    used = {}
    for _l, mj in path:
        k = mj[0]
        if k in ('DeleteField', 'ChangeField'):
            used.setdefault(mj[1], set()).add(mj[2])
        elif k == 'AddField':
            if mj[2] in used.get(mj[1], set()):
                return True
            used.setdefault(mj[1], set()).add(mj[2])
        elif k == 'RenameField':
            used.setdefault(mj[1], set()).add(mj[2])
            if mj[3] in used.get(mj[1], set()):
                return True
            used[mj[1]].add(mj[3])
    return False


def core_text(core):
    return abstract_path(core) + ('|name-reuse' if has_name_reuse(core)
                                  else '')


def is_mergeable_step(mj):
    k = mj[0]
    if k not in MERGEABLE_KINDS:
        return False
    if k == 'ChangeField':
        if mj[5] and mj[5] != 'Char':
            return False       # type change (the alphabet never changes a
            #                    type TO Char: that is the current type
            #                    restated, an ordinary attribute change)
        if 'db_column' in mj[3]:
            return False       # column rename
    if k == 'AddField' and mj[3] == 'M2M':
        return False
    return True


def c18_bound(path, per_step_rebuilds, ident_of_step):
    """Upper bound on rebuilds per model identity for the batched run: one
    per maximal run of consecutive mergeable same-model steps (if any of
    them rebuilds stepwise), plus the stepwise count of every other step."""
    bound = {}
    run_ident = [None]
    run_has = [False]

    def close():
        if run_ident[0] is not None and run_has[0]:
            bound[run_ident[0]] = bound.get(run_ident[0], 0) + 1
        run_ident[0], run_has[0] = None, False
    for (label, mj), rb, ident in zip(path, per_step_rebuilds,
                                      ident_of_step):
        n = len(rb)
        if is_mergeable_step(mj):
            if run_ident[0] != ident:
                close()
                run_ident[0] = ident
            if n:
                run_has[0] = True
        else:
            close()
            if n:
                bound[ident] = bound.get(ident, 0) + n
    close()
    return bound


# --------------------------------------------------- model identity (C18)

def initial_idents(spec):
    st = {'cur': {}, 'tables': {}, 'steps': [], 'ambiguous': False}
    for label, m in S.iter_models(spec):
        ident = '%s.%s' % (label, m['name'])
        st['cur'][(label, m['name'])] = ident
        st['tables'][S.table_name(label, m)] = ident
    return st


def advance_idents(st, spec2, step):
    import copy
    st = copy.deepcopy(st)
    label, mj = step
    kind = mj[0]
    if kind in ('DeleteApplication', 'RenameAppLabel', 'SQLBarrier'):
        st['steps'].append('*')
        return st
    ident = st['cur'].get((label, mj[1]), '%s.%s' % (label, mj[1]))
    st['steps'].append(ident)
    if kind == 'RenameModel':
        st['cur'].pop((label, mj[1]), None)
        st['cur'][(label, mj[2])] = ident
        m2 = S.get_model(spec2, label, mj[2])
        t = S.table_name(label, m2)
        if st['tables'].get(t, ident) != ident:
            st['ambiguous'] = True
        st['tables'][t] = ident
    return st


def idents_view(st):
    if st['ambiguous']:
        return None
    return list(st['steps']), dict(st['tables'])


# ----------------------------------------------------------- the runner

class PathRunner(object):
    def __init__(self, start, rows, ways, labels=('va',)):
        self.start = start
        self.rows = rows
        self.ways = ways
        self.labels = labels
        self.only18 = False     # C18 runs: rebuild counts only (no C03
        #                         comparison reports, no minimisation of them)
        self.base_image = D.baseline(start, rows=rows)
        B.restore(self.base_image, 'default')
        self.base_sig = D.stored_signature().serialize()
        self.stats = {'paths': 0, 'w1_steps': 0, 'skipped_w1_failed': 0,
                      'skipped_gate': 0, 'skipped_w1_not_fresh': 0,
                      'ways_run': 0, 'end_states': 0, 'minimisations': 0,
                      'c18_paths_counted': 0, 'c18_skipped_ambiguous': 0,
                      'rebuilds_stepwise': 0, 'rebuilds_batched': 0,
                      'samples': [], 'max_len': 0, 'violating_paths': 0}
        self.end_states = set()
        self.viol3 = {}
        self.viol18 = {}
        self._min_cache = {}

    def add(self, store, fp, path, detail):
        replay = {'start': self.start, 'rows': self.rows, 'steps': path}
        size = len(S.canon(replay))
        ent = store.get(fp)
        if ent is None:
            store[fp] = {'count': 1, 'exemplar': replay, 'detail': detail,
                         'size': size}
        else:
            ent['count'] += 1
            if size < ent['size']:
                ent.update(exemplar=replay, detail=detail, size=size)

    # -- W1 ------------------------------------------------------------
    def w1_step(self, image, sig_ser, spec, step):
        """Returns (status, image', sig', spec', rebuilt tables, result)."""
        label, mj = step
        spec2 = ML.apply(spec, label, mj)
        B.restore(image, 'default')
        B.reset_globals()
        res = D.d1(R.load_sig(sig_ser), [step])
        self.stats['w1_steps'] += 1
        if not res.ok:
            return 'failed', None, None, spec2, [], res
        ent = R.fresh(spec2)
        okk, _d = R.sig_equal(sub_sig(res.sig, self.labels),
                              R.load_sig(ent['sig']))
        if not okk:
            # the simulated signature is not the documented effect of the
            # mutation (C01 reports that); the path stays in: stepwise and
            # batched runs are compared with each other as usual
            self.stats['skipped_gate'] += 1
        if O.schema_dump('default', skip=SKIP_TABLES) != ent['schema']:
            return 'c01', None, None, spec2, [], res
        return ('ok', B.snapshot('default'), res.sig.serialize(), spec2,
                D.rebuilds(res.statements), res)

    def w1_full(self, path):
        """W1 from the base state.  Returns None if the path is outside the
        domain, else (w1_obs, rebuilds per step, final spec, idents)."""
        image, sig, spec = self.base_image, self.base_sig, self.start
        rebuilds = []
        idents = initial_idents(self.start)
        for step in path:
            try:
                st, image, sig, spec2, rb, _res = self.w1_step(
                    image, sig, spec, step)
            except ML.Disabled:
                return None
            if st != 'ok':
                return None
            idents = advance_idents(idents, spec2, step)
            spec = spec2
            rebuilds.append(rb)
        B.restore(image, 'default')
        w1_obs = (sub_sig(R.load_sig(sig), self.labels),) + observe_db()
        return w1_obs, rebuilds, spec, idents_view(idents)

    # -- ways ------------------------------------------------------------
    def compare(self, ref_obs, obs, res, final_spec):
        out = []
        detail = {}
        if not res.ok:
            exc_type, msg = res.exc_type, str(res.exc)
            if exc_type == 'EvolutionExecutionError':
                # the Evolver wraps the database error
                exc_type = 'OperationalError'
                msg = getattr(res.exc, 'detailed_error', None) or msg
            out.append('rejected:%s:%s' % (exc_type, norm_msg(msg)))
            detail.update(error=str(res.exc)[:300], stage=res.stage)
            return out, detail
        sig_ok, diffs = R.sig_equal(obs[0], ref_obs[0])
        if not sig_ok:
            for line in sorted(set(norm_diff(diffs[0]) +
                                   norm_diff(diffs[1]))):
                out.append('sig:' + line)
            detail['sig_diff'] = diffs
        if obs[1] != ref_obs[1]:
            from vf import engine_a as EA
            for dk, owner, where in EA.schema_discrepancies(
                    obs[1], ref_obs[1], final_spec, final_spec):
                d = 'schema:%s:%s' % (dk, owner)
                if d not in out:
                    out.append(d)
                detail.setdefault('schema', []).append(where)
        if obs[2] != ref_obs[2]:
            for d, where in row_discrepancies(obs[2], ref_obs[2]):
                if d not in out:
                    out.append(d)
                detail.setdefault('rows', []).append(where)
            detail['rows_expected'] = str(ref_obs[2])[:300]
            detail['rows_got'] = str(obs[2])[:300]
        return out, detail

    def obs(self, res, stored=False):
        if not res.ok:
            return None
        sig = D.stored_signature() if stored else res.sig
        schema, rows = observe_db()
        return (sub_sig(sig, self.labels), schema, rows)

    def eval_way(self, way, path, final_spec, w1_obs):
        """Run one way.  Returns {'desc', 'detail', 'trace', 'altered'}."""
        steps = list(path)
        self.stats['ways_run'] += 1
        real = [ML.to_real(mj) for _l, mj in steps]
        before = [str(m) for m in real]
        extra = []
        if way in ('W2', 'W5'):
            B.restore(self.base_image, 'default')
            B.reset_globals()
            res = D.d1(R.load_sig(self.base_sig), steps, real=real)
            if way == 'W2' and res.ok and res.second_pass_sig is not None:
                ok12, d12 = R.sig_equal(
                    sub_sig(res.second_pass_sig, self.labels),
                    sub_sig(res.sig, self.labels))
                if not ok12:
                    extra.append('passes-differ')
            if way == 'W5':
                # second processing of the same objects
                if not res.ok:
                    return {'desc': [], 'detail': {}, 'trace': [],
                            'altered': None, 'first_failed': True}
                B.restore(self.base_image, 'default')
                B.reset_globals()
                self.stats['ways_run'] += 1
                res = D.d1(R.load_sig(self.base_sig), steps, real=real)
            obs = self.obs(res)
        else:
            MZ.install(final_spec)
            B.restore(self.base_image, 'default')
            B.reset_globals()
            if way == 'W3':
                evos = [{'label': 'e1', 'mutations': real}]
            else:
                evos = [{'label': 'e%d' % (i + 1), 'mutations': [m]}
                        for i, m in enumerate(real)]
            res = D.d2(self.labels[0], evos)
            obs = self.obs(res, stored=True)
        desc, detail = self.compare(w1_obs, obs, res, final_spec)
        desc += extra
        after = [str(m) for m in real]
        altered = None
        if before != after:
            altered = (before, after)
        return {'desc': desc, 'detail': detail, 'trace': res.statements,
                'altered': altered, 'ok': res.ok}

    # -- minimisation ------------------------------------------------------
    def minimise(self, path, predicate):
        """Greedy one-step removal while `predicate(subpath)` holds."""
        self.stats['minimisations'] += 1
        path = list(path)
        changed = True
        while changed and len(path) > 1:
            changed = False
            for i in range(len(path) - 1, -1, -1):
                cand = path[:i] + path[i + 1:]
                if predicate(cand, S.canon(cand)):
                    path = cand
                    changed = True
                    break
        return path

    def way_predicate(self, way, descriptor):
        def pred(cand, key):
            ck = (way, descriptor, key)
            if ck in self._min_cache:
                return self._min_cache[ck]
            r = False
            w1 = self.w1_full(cand)
            if w1 is not None:
                w1_obs, _rb, spec, _id = w1
                ev = self.eval_way(way, cand, spec, w1_obs)
                if descriptor == 'definitions-altered':
                    r = ev['altered'] is not None
                else:
                    r = descriptor in ev['desc']
                # a W3/W5-only discrepancy must stay W2-free
                if r and way != 'W2' and descriptor != 'definitions-altered':
                    ev2 = self.eval_way('W2', cand, spec, w1_obs)
                    if descriptor in ev2['desc']:
                        r = False
            self._min_cache[ck] = r
            return r
        return pred

    def c18_predicate(self, way, clause):
        def pred(cand, key):
            ck = ('c18', way, clause, key)
            if ck in self._min_cache:
                return self._min_cache[ck]
            r = False
            w1 = self.w1_full(cand)
            if w1 is not None:
                w1_obs, rb, spec, idents = w1
                if idents is not None:
                    ev = self.eval_way(way, cand, spec, w1_obs)
                    if ev.get('ok'):
                        r = clause in [c for c, _d in self.c18_judge(
                            cand, rb, idents, ev['trace'])[0]]
            self._min_cache[ck] = r
            return r
        return pred

    def c18_judge(self, path, rebuilds, idents, trace):
        step_ident, table_ident = idents
        bound = c18_bound(path, rebuilds, step_ident)
        stepwise = {}
        for rb, ident in zip(rebuilds, step_ident):
            stepwise[ident] = stepwise.get(ident, 0) + len(rb)
        got = {}
        for t in D.rebuilds(trace):
            ident = table_ident.get(t, t)
            got[ident] = got.get(ident, 0) + 1
        out = []
        for ident, n in got.items():
            if n > stepwise.get(ident, 0):
                out.append(('more-than-stepwise',
                            {'table': ident, 'batched': n,
                             'stepwise': stepwise.get(ident, 0)}))
            elif n > bound.get(ident, 0):
                out.append(('run-not-merged',
                            {'table': ident, 'batched': n,
                             'bound': bound.get(ident, 0),
                             'stepwise': stepwise.get(ident, 0)}))
        return out, stepwise, got

    # -- per path ----------------------------------------------------------
    def run_ways(self, path, final_spec, w1_obs, rebuilds, idents):
        self.stats['paths'] += 1
        self.stats['max_len'] = max(self.stats['max_len'], len(path))
        key = (S.canon(jsonable(w1_obs[1])), S.canon(jsonable(w1_obs[2])),
               S.canon(final_spec))
        self.end_states.add(key)
        violating = False
        base = []
        traces = {}
        altered_reported = False
        for way in ('W2', 'W5', 'W3', 'W4'):
            if way not in self.ways:
                continue
            ev = self.eval_way(way, path, final_spec, w1_obs)
            if ev.get('first_failed'):
                continue
            if ev.get('ok'):
                traces[way] = ev['trace']
            new = [d for d in ev['desc'] if d not in base]
            if way == 'W2':
                base = list(ev['desc'])
            if self.only18:
                continue
            for d in new:
                violating = True
                core = self.minimise(path, self.way_predicate(way, d))
                tag = '' if way == 'W2' else '|%s-only' % (
                    'second-processing' if way == 'W5' else
                    'evolver' if way == 'W3' else 'split-evolutions')
                self.add(self.viol3, 'C03|%s|%s%s' % (
                    d, core_text(core), tag), core,
                    dict(ev['detail'], way=way, found_on=len(path)))
            if ev['altered'] and not altered_reported:
                altered_reported = True
                violating = True
                core = self.minimise(path, self.way_predicate(
                    way, 'definitions-altered'))
                self.add(self.viol3, 'C03|definitions-altered|%s'
                         % core_text(core), core,
                         {'before': ev['altered'][0],
                          'after': ev['altered'][1], 'way': way})
        if violating:
            self.stats['violating_paths'] += 1
        # ---- C18
        if idents is None:
            self.stats['c18_skipped_ambiguous'] += 1
            return
        self.stats['c18_paths_counted'] += 1
        first = True
        for way, trace in traces.items():
            if way not in ('W2', 'W3'):
                continue
            judged, stepwise, got = self.c18_judge(path, rebuilds, idents,
                                                   trace)
            if first:
                first = False
                self.stats['rebuilds_stepwise'] += sum(stepwise.values())
                self.stats['rebuilds_batched'] += sum(got.values())
            for clause, detail in judged:
                if way == 'W3' and 'W2' in traces and clause in [
                        c for c, _ in self.c18_judge(
                            path, rebuilds, idents, traces['W2'])[0]]:
                    continue
                core = self.minimise(path, self.c18_predicate(way, clause))
                tag = '' if way == 'W2' else '|evolver-only'
                self.add(self.viol18, 'C18|%s|%s%s' % (
                    clause, abstract_path(core), tag), core,
                    dict(detail, way=way))

    # -- DFS -------------------------------------------------------------
    def dfs(self, depth, level, kinds, prefix_filter=None,
            barrier_variants=False, **alphabet_opts):
        barrier = ('va', ['SQLBarrier', 'barrier'])

        def rec(image, sig_ser, spec, path, rebuilds, idents, deleted):
            if len(path) >= depth:
                return
            steps = AL.enabled(spec, level=level, kinds=kinds,
                               reuse_names=tuple(deleted), **alphabet_opts)
            for step in steps:
                if not path and prefix_filter is not None and \
                        S.canon(step) not in prefix_filter:
                    continue
                st, img2, sig2, spec2, rb, res = self.w1_step(
                    image, sig_ser, spec, step)
                if st == 'failed':
                    self.stats['skipped_w1_failed'] += 1
                    continue
                if st == 'c01':
                    self.stats['skipped_w1_not_fresh'] += 1
                    continue
                path2 = path + [step]
                idents2 = advance_idents(idents, spec2, step)
                w1_obs = (sub_sig(R.load_sig(sig2), self.labels),) + \
                    observe_db()
                rebuilds2 = rebuilds + [rb]
                if len(self.stats['samples']) < 2 and len(path2) == depth:
                    self.stats['samples'].append(
                        {'start': self.start, 'steps': path2})
                self.run_ways(path2, spec2, w1_obs, rebuilds2,
                              idents_view(idents2))
                if barrier_variants and len(path2) >= 2:
                    # the same path with an SQL barrier before its last
                    # step: the stepwise outcome is the same, the batch is
                    # cut in two (state must carry over the barrier)
                    pb = path2[:-1] + [barrier] + path2[-1:]
                    idb = advance_idents(advance_idents(
                        idents, spec, barrier), spec2, step)
                    self.run_ways(pb, spec2, w1_obs,
                                  rebuilds + [[]] + [rb], idents_view(idb))
                deleted2 = deleted + ([step[1][2]] if step[1][0] in
                                      ('DeleteField', 'RenameField') else [])
                rec(img2, sig2, spec2, path2, rebuilds2, idents2, deleted2)
        rec(self.base_image, self.base_sig, self.start, [], [],
            initial_idents(self.start), [])
        self.stats['end_states'] = len(self.end_states)


def work(task):
    name, start, rows, depth, level, kinds, ways, first = task[:8]
    opts = dict(task[8]) if len(task) > 8 else {}
    pr = PathRunner(start, rows, ways)
    pr.only18 = bool(opts.pop('only18', False)) if opts else False
    bv = bool(opts.pop('barrier_variants', False)) if opts else False
    pr.dfs(depth, level, kinds, prefix_filter=first, barrier_variants=bv,
           **{k: (tuple(v) if isinstance(v, list) else v)
              for k, v in opts.items()})
    return name, pr.stats, pr.viol3, pr.viol18


# Shards of the thorough tier that C18 does not run by default: they
# completed once (47 minutes), reported 369 further minimal cores in two
# families (a ChangeMeta that removes an entry which is not there, between
# two additions; an AddField that re-uses a name freed after a column move)
# and those were not triaged, so nothing is claimed from them (DESIGN 8.2).
# VERIF_DEEP=1 runs them.
C18_NOT_REGISTERED = ('narrow-d4', 'reuse-d5')


def tasks_for(tier, prop='C03'):
    """One task per (start, first step) so that deep searches shard.  For
    C18 only the ways whose statement traces are counted (W2, W3) run, and
    nothing of the C03 comparison is reported or minimised."""
    from vf import bootstrap
    bootstrap.setup()
    tasks = []
    only = os.environ.get('VERIF_ONLY')

    def shard(name, start, rows, depth, level, kinds, ways,
              barrier_variants=False, **opts):
        if only and only not in name:
            return
        if prop == 'C18' and name in C18_NOT_REGISTERED and \
                not os.environ.get('VERIF_DEEP'):
            return
        firsts = AL.enabled(start, level=level, kinds=kinds, **opts)
        if prop == 'C18':
            ways = tuple(w for w in ways if w in ('W2', 'W3'))
            if tier != 'quick' and depth >= 3:
                ways = ('W2',)
        for i, st in enumerate(firsts):
            o = {k: (list(v) if isinstance(v, (list, tuple)) else v)
                 for k, v in opts.items()}
            if prop == 'C18':
                o['only18'] = True
            if barrier_variants:
                o['barrier_variants'] = True
            tasks.append(('%s#%d' % (name, i), start, rows, depth, level,
                          kinds, ways, [S.canon(st)], o))
    if tier == 'quick':
        shard('narrow-d3', narrow_start(), 'R2', 3, 'lite', NARROW_KINDS,
              ('W2', 'W5', 'W3'))
        shard('two-model-d2', two_model_start(), 'R2', 2, 'full', None,
              ('W2', 'W5', 'W3'))
        shard('three-field-d2', three_field_start(), 'R2', 2, 'full',
              NARROW_KINDS, ('W2', 'W3'))
        shard('indexed-d2', indexed_start(), 'R2', 2, 'full',
              ('AddField', 'DeleteField', 'ChangeField', 'RenameField'),
              ('W2', 'W3'))
        # columns whose name differs from the field name (db_column,
        # relations), every two-step path also with an SQL barrier between
        # the steps
        shard('columns-barrier-d2', columns_start(), 'R2', 2, 'full',
              ('AddField', 'ChangeField', 'RenameField'), ('W2', 'W3'),
              barrier_variants=True)
        # the referenced primary key is renamed between two changes of
        # the referring table (the REFERENCES clause must follow)
        shard('pk-rename-d2', explicit_pk_start(), 'R2', 2, 'lite',
              ('AddField', 'ChangeField', 'RenameField'), ('W2', 'W3'),
              rename_pk=True)
        # a relation added to a model that is then renamed twice
        shard('rename-chain-d3', two_model_start(), 'R2', 3, 'full',
              ('AddField', 'RenameModel'), ('W2', 'W3'),
              add_types=('FK',), rename_models=('Zed', 'Yak'))
        # name re-use needs four steps (change, rename away, add again,
        # change): tiny alphabet, deeper
        shard('reuse-d4', narrow_start(), 'R2', 4, 'tiny', REUSE_KINDS,
              ('W2', 'W3'))
        # state recorded by a merged group must survive an SQL barrier:
        # every three-step path of additions and attribute changes, also
        # with a barrier before its last step (index added inside a rebuild
        # caused by another field, then dropped after the barrier)
        shard('index-barrier-d3', narrow_start(), 'R2', 3, 'lite',
              ('AddField', 'ChangeField'), ('W2',), barrier_variants=True)
    else:
        shard('reuse-d5', narrow_start(), 'R2', 5, 'tiny', REUSE_KINDS,
              ('W2', 'W3'))
        # (285 806 paths: the stepwise-vs-batched comparison only; the
        # Evolver pipeline and the second processing run at depth 3 in
        # narrow-barrier-d3)
        shard('narrow-d4', narrow_start(), 'R2', 4, 'lite', NARROW_KINDS,
              ('W2',))
        shard('narrow-barrier-d3', narrow_start(), 'R2', 3, 'lite',
              NARROW_KINDS + ('SQLBarrier',), ('W2', 'W5', 'W3', 'W4'))
        shard('two-model-d3', two_model_start(), 'R2', 3, 'lite',
              NARROW_KINDS + ('RenameModel', 'DeleteModel'),
              ('W2', 'W5', 'W3'))
        shard('two-model-full-d2', two_model_start(), 'R2', 2, 'full', None,
              ('W2', 'W5', 'W3', 'W4'))
        shard('three-field-d3', three_field_start(), 'R2', 3, 'lite',
              NARROW_KINDS, ('W2', 'W3'))
        shard('pk-rename-full-d3', explicit_pk_start(), 'R2', 3, 'lite',
              ('AddField', 'ChangeField', 'RenameField'), ('W2', 'W3'),
              rename_pk=True)
        shard('indexed-d3', indexed_start(), 'R2', 3, 'lite',
              NARROW_KINDS, ('W2', 'W3'))
        shard('indexed-full-d2', indexed_start(), 'R2', 2, 'full',
              NARROW_KINDS, ('W2', 'W5', 'W3'))
    return tasks


def run_both(tier, seed, prop='C03'):
    tasks = tasks_for(tier, prop)
    total = {}
    c3 = findings.Collector('C03')
    c18 = findings.Collector('C18')
    for name, stats, v3, v18 in explore.run_tasks(
            'vf.checks.c03.work', tasks, seed=seed, progress=20):
        common.merge_stats(total, stats)
        c3.merge(v3)
        c18.merge(v18)
    return tasks, total, c3, c18


def bounds_of(tasks):
    seen = {}
    for t in tasks:
        nm = t[0].split('#')[0]
        seen[nm] = {'depth': t[3], 'alphabet': t[4], 'kinds': t[5],
                    'ways': t[6], 'rows': t[2]}
    return seen


def c18_pipeline_scenarios(coll, stats):
    """C18 through the Evolver with declared dependencies (the four-app
    project of C09): the two pending evolutions of app va both add a field
    to va_item; whatever unit the dependencies put between them, the table
    is rewritten once - unless a *migration* has to run between the two
    (migrations split the run into separate batches)."""
    from vf.checks import c09_pipeline as CP
    n = 0
    for deps in CP.configs(1):
        units, edges = CP.required_edges(deps, set())
        if not CP.acyclic(units, edges):
            continue
        # a migration between a1 and a2?
        between = False
        for (h, (kind, t)) in deps:
            if 'MIGRATIONS' in kind and h[0] == 'va':
                between = True
        img = CP.start_image(False)
        CP.install(2, deps)
        B.restore(img, 'default')
        B.reset_globals()
        tracer = O.Tracer('default')
        res = D.d2_all(tracer=tracer)
        n += 1
        if not res.ok:
            continue
        rb = [t for t in D.rebuilds(tracer.effects()) if t == 'va_item']
        bound = 2 if between else 1
        if len(rb) > bound:
            coll.add('C18|run-not-merged|pipeline|%s' % CP.dep_shape(deps),
                     {'scenario': 'pipeline',
                      'deps': [[list(h), [k, list(t) if isinstance(t, tuple)
                                          else t]] for (h, (k, t)) in deps]},
                     {'rebuilds_of_va_item': len(rb), 'bound': bound})
    stats['c18_pipeline_configs'] = n


def c18_chain_configs():
    """Declared dependencies for the three-evolution app: at most two of
    {evolution e2, evolution e3, the app} x {AFTER, BEFORE}_MIGRATIONS x
    {vm.0001_initial, vm.0002_add_x} (the same dependency may be stated by
    the app and restated by an evolution)."""
    holders = [('va', 'e2'), ('va', 'e3'), ('va', None)]
    opts = [(k, ('vm', m)) for k in ('AFTER_MIGRATIONS', 'BEFORE_MIGRATIONS')
            for m in ('0001_initial', '0002_add_x')]
    one = [[(h, o)] for h in holders for o in opts]
    two = [[(h1, o1), (h2, o2)]
           for i, h1 in enumerate(holders) for h2 in holders[i + 1:]
           for o1 in opts for o2 in opts
           if o1[0] == 'AFTER_MIGRATIONS' or o2[0] == 'AFTER_MIGRATIONS']
    return [[]] + one + two


def c18_chain_scenarios(coll, stats, tier):
    """C18 through the Evolver, second family: app va has evolution e1
    applied and e2, e3 pending (each adds a field to va_item); app vab
    (already installed) has applied an evolution that is also called e2;
    app vm is new and created by its two migrations in the same run.  The
    two pending evolutions cost ONE rewrite of va_item unless a declared
    dependency orders a migration against one of them only."""
    from vf.checks import c09_pipeline as CP
    from vf.spec import F, M, A, P

    def proj(version):
        item = M('Item', [F('a', 'Char', max_length=20)] + [
            F('n%d' % i, 'Int', null=True) for i in range(1, version + 1)])
        thing = M('Thing', [F('t', 'Char', max_length=20),
                            F('n1', 'Int', null=True)])
        apps = [A('va', [item]), A('vab', [thing])]
        if version >= 3:
            apps.append(A('vm', [M('Doc', [F('title', 'Char', max_length=20),
                                           F('x', 'Int', null=True)])]))
        return P(*apps)

    def install(version, deps):
        dmap = {}
        for (h, (kind, target)) in deps:
            dmap.setdefault(h, {}).setdefault(kind, []).append(tuple(target))
        mods = {}
        for i in range(1, version + 1):
            b = {'MUTATIONS': [ML.to_real(['AddField', 'Item', 'n%d' % i,
                                           'Int', {'null': True}, None])]}
            b.update(dmap.get(('va', 'e%d' % i), {}))
            mods['e%d' % i] = b
        evos = {'va': {'SEQUENCE': ['e%d' % i for i in range(1, version + 1)],
                       'modules': mods, 'top': dmap.get(('va', None), {})},
                'vab': {'SEQUENCE': ['e2'], 'modules': {'e2': {
                    'MUTATIONS': [ML.to_real(['AddField', 'Thing', 'n1',
                                              'Int', {'null': True},
                                              None])]}}}}
        migs = {'vm': [('0001_initial', CP.MIG1), ('0002_add_x', CP.MIG2)]} \
            if version >= 3 else None
        return MZ.install(proj(version), evolutions=evos, migrations=migs)

    install(1, [])
    B.fresh_db('default')
    B.reset_globals()
    r = D.d2_all()
    assert r.ok, r.exc
    img = B.snapshot('default')
    n = 0
    cfgs = c18_chain_configs()
    for deps in cfgs:
        # may a migration lie between e2 and e3?  Only if a declared
        # dependency orders it against ONE of the two (e3 must follow it
        # while e2 need not, or e2 must precede it while e3 need not): then
        # "e2, migration, e3" is a schedule the dependencies ask for and two
        # rewrites are accepted.  A dependency stated for the whole app, or
        # by both evolutions, constrains both alike: one rewrite.
        order = {'0001_initial': 1, '0002_add_x': 2}

        def after(el):
            ms = [order[t[1]] for (h, (k, t)) in deps
                  if k == 'AFTER_MIGRATIONS' and h in (('va', el),
                                                       ('va', None))]
            return set(range(1, max(ms) + 1)) if ms else set()

        def before(el):
            ms = [order[t[1]] for (h, (k, t)) in deps
                  if k == 'BEFORE_MIGRATIONS' and h in (('va', el),
                                                        ('va', None))]
            return set(range(min(ms), 3)) if ms else set()
        forced = bool(after('e3') - after('e2')) or \
            bool(before('e2') - before('e3'))
        # a cycle (e2 or the app after a migration that e3/the app must
        # precede) is refused by the graph: not a C18 matter
        install(3, deps)
        B.restore(img, 'default')
        B.reset_globals()
        tracer = O.Tracer('default')
        res = D.d2_all(tracer=tracer)
        n += 1
        if not res.ok:
            stats['c18_chain_failed'] = stats.get('c18_chain_failed', 0) + 1
            continue
        rb = [t for t in D.rebuilds(tracer.effects()) if t == 'va_item']
        bound = 2 if forced else 1
        if len(rb) > bound:
            coll.add('C18|run-not-merged|chain|%s' % '+'.join(sorted(
                '%s:%s->%s' % ('app' if h[1] is None else h[1],
                               k.split('_')[0].lower(), t[1][:4])
                for (h, (k, t)) in deps)),
                {'scenario': 'chain',
                 'deps': [[list(h), [k, list(t)]] for (h, (k, t)) in deps]},
                {'rebuilds_of_va_item': len(rb), 'bound': bound})
    stats['c18_chain_configs'] = n


def run(tier, seed, confirm=True, prop='C03'):
    t0 = time.time()
    tasks, total, c3, c18 = run_both(tier, seed, prop)
    if prop == 'C18':
        from vf import bootstrap
        bootstrap.setup()
        c18_pipeline_scenarios(c18, total)
        c18_chain_scenarios(c18, total, tier)
    coll = c3 if prop == 'C03' else c18
    coverage = {
        'states': max(1, total['end_states']),
        'transitions': total['w1_steps'],
        'traces_validated_against_impl': total['paths'],
        'samples': total['samples'][:3],
        'exhaustive': True,
        'paths': total['paths'],
        'violating_paths': total['violating_paths'],
        'executions_of_whole_paths': total['ways_run'],
        'minimisations': total['minimisations'],
        'skipped_w1_failed': total['skipped_w1_failed'],
        'steps_where_simulated_signature_differs_from_reference':
            total['skipped_gate'],
        'skipped_w1_differs_from_fresh_schema':
            total['skipped_w1_not_fresh'],
        'max_path_length': total['max_len'],
        'c18_paths_counted': total['c18_paths_counted'],
        'c18_skipped_ambiguous_table_identity':
            total['c18_skipped_ambiguous'],
        'rebuilds_stepwise_total': total['rebuilds_stepwise'],
        'rebuilds_batched_total': total['rebuilds_batched'],
        'bounds': bounds_of(tasks),
        'not_done': 'the property text also mentions random sequences up to '
                    'length 12: sampling is outside this family and is not '
                    'done',
    }
    print('%s %s: %d paths (max length %d), %d violating, %d W1 steps, %d '
          'whole-path executions, %d distinct end states; rebuilds '
          'stepwise=%d batched=%d' % (
              prop, tier, total['paths'], total['max_len'],
              total['violating_paths'], total['w1_steps'],
              total['ways_run'], total['end_states'],
              total['rebuilds_stepwise'], total['rebuilds_batched']))
    return common.finish(prop, tier, seed, 'model_checking', coverage, coll,
                         t0, confirm=confirm, assumptions=[
        'W1 (one AppMutator per mutation) defines the reference outcome',
        'paths whose W1 run fails, disagrees with the reference model or '
        'differs from the freshly created schema are outside the domain '
        '(they belong to C01)',
        'signatures are compared by Diff emptiness in both directions',
    ])


def replay(path, prop='C03'):
    doc = common.load_replay(path)
    r = doc['replay']
    if r.get('scenario') in ('pipeline', 'chain'):
        coll = findings.Collector('C18')
        if r['scenario'] == 'pipeline':
            c18_pipeline_scenarios(coll, {})
        else:
            c18_chain_scenarios(coll, {}, 'thorough')
        for fp in coll.by_fp:
            print('  %s' % fp)
        if doc['fingerprint'] in coll.by_fp:
            print('REPRODUCED %s' % doc['fingerprint'])
            return 1
        print('NOT-REPRODUCED')
        return 0
    steps = [tuple(s) for s in r['steps']]
    pr = PathRunner(r['start'], r.get('rows'), ('W2', 'W5', 'W3', 'W4'))
    w1 = pr.w1_full(steps)
    if w1 is None:
        print('NOT-REPRODUCED (path outside the domain: W1 not ok)')
        return 0
    w1_obs, rebuilds, spec, idents = w1
    print('path: %s' % abstract_path(steps))
    for s in steps:
        print('   %s' % S.canon(s))
    pr.run_ways(steps, spec, w1_obs, rebuilds, idents)
    store = pr.viol3 if prop == 'C03' else pr.viol18
    for fp, ent in store.items():
        print('  %s: %s' % (fp, str(ent['detail'])[:700]))
    if doc['fingerprint'] in store:
        print('REPRODUCED %s' % doc['fingerprint'])
        return 1
    print('NOT-REPRODUCED %s (got %s)' % (doc['fingerprint'], list(store)))
    return 0
