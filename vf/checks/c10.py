"""C10 - handing an app over to Django migrations is clean and one-way.

Generated app `vm` with k evolutions followed by
MoveToDjangoMigrations(mark_applied=S) and a real on-disk chain of m
migrations (S every prefix of the chain); start states {empty database,
database at V0, database at each earlier evolution}; alone and next to an
evolution-only app; upgrade through D2 / D3 / D4, then upgrade again."""
import time

from vf import spec as S, mutlang as ML, observe as O, bootstrap as B
from vf import materialize as MZ, drivers as D, engine_b as EB
from vf import refstate as R, findings, explore, acceptor
from vf.spec import F, M, A, P
from vf.checks import common, c03

PROP = 'C10'
SKIP = O.BOOKKEEPING_TABLES + ('django_content_type',)

MIG_HEAD = "from django.db import migrations, models\n\n\n" \
           "class Migration(migrations.Migration):\n"


def field_name(j):
    return 'n%d' % j


def migration_chain(m):
    """0001_initial creates Item{a}; migration j+1 adds field n_j."""
    out = []
    out.append(('0001_initial', MIG_HEAD +
                "    initial = True\n    dependencies = []\n"
                "    operations = [migrations.CreateModel(name='Item', "
                "fields=[('id', models.AutoField(auto_created=True, "
                "primary_key=True, serialize=False, verbose_name='ID')), "
                "('a', models.CharField(max_length=20))])]\n"))
    for j in range(1, m):
        prev = out[-1][0]
        name = '%04d_add_%s' % (j + 1, field_name(j))
        out.append((name, MIG_HEAD +
                    "    dependencies = [('vm', %r)]\n"
                    "    operations = [migrations.AddField(model_name='item',"
                    " name=%r, field=models.IntegerField(null=True))]\n"
                    % (prev, field_name(j))))
    return out


def vm_spec(nfields):
    fields = [F('a', 'Char', max_length=20)]
    for j in range(1, nfields + 1):
        fields.append(F(field_name(j), 'Int', null=True))
    return M('Item', fields)


def neighbour(version):
    m = M('Thing', [F('t', 'Char', max_length=20)] +
          ([F('extra', 'Int', null=True)] if version else []))
    return A('va', [m])


class Config(object):
    def __init__(self, k, m, s, start, with_neighbour, pkg=None,
                 db='default', v1=False, aborted=False):
        self.aborted = aborted          # a first attempt is aborted by a
        #                                 fault in the first statement that
        #                                 touches the app's table, then
        #                                 the hand-over is run again
        self.db = db                    # the database being upgraded
        self.v1 = v1                    # stored signature is a legacy
        #                                 (version 1, pickled) row
        self.k, self.m, self.s = k, m, s
        self.pkg = pkg                  # package name when != app label
        self.start = start              # 'empty' | 'v0' | 'e<j>'
        self.nb = with_neighbour
        self.chain = migration_chain(m)
        self.marked = [n for n, _t in self.chain[:s]]

    def describe(self):
        d = {'k': self.k, 'm': self.m, 'mark_applied': self.marked,
             'start': self.start, 'neighbour': self.nb, 'pkg': self.pkg}
        if self.db != 'default':
            d['db'] = self.db
        if self.v1:
            d['v1'] = True
        if self.aborted:
            d['aborted'] = True
        return d

    def kind(self):
        if self.s == self.k + 1:
            return 'consistent'
        return 'under-marked' if self.s < self.k + 1 else 'over-marked'

    def evolutions(self, upto, with_move):
        """vm evolutions dict for code with `upto` regular evolutions."""
        from django_evolution.mutations import MoveToDjangoMigrations
        seq, mods = [], {}
        for j in range(1, upto + 1):
            el = 'e%d' % j
            seq.append(el)
            mods[el] = {'MUTATIONS': [ML.to_real(
                ['AddField', 'Item', field_name(j), 'Int', {'null': True},
                 None])]}
        if with_move:
            seq.append('move')
            mods['move'] = {'MUTATIONS': [
                MoveToDjangoMigrations(mark_applied=list(self.marked))]}
        return {'SEQUENCE': seq, 'modules': mods}

    def vm_app(self, nfields):
        app = A('vm', [vm_spec(nfields)])
        if self.pkg:
            app['package'] = self.pkg
        return app

    def install_old(self, upto):
        """Code before the hand-over: vm with `upto` evolutions, no
        migrations package."""
        apps = [self.vm_app(upto)]
        evos = {'vm': self.evolutions(upto, False)}
        if self.nb:
            apps.append(neighbour(0))
            evos['va'] = {'SEQUENCE': [], 'modules': {}}
        return MZ.install(P(*apps), evolutions=evos)

    def install_final(self):
        apps = [self.vm_app(self.m - 1)]
        evos = {'vm': self.evolutions(self.k, True)}
        if self.nb:
            apps.append(neighbour(1))
            evos['va'] = {'SEQUENCE': ['e1'], 'modules': {'e1': {
                'MUTATIONS': [ML.to_real(['AddField', 'Thing', 'extra',
                                          'Int', {'null': True}, None])]}}}
        return MZ.install(P(*apps), evolutions=evos,
                          migrations={'vm': self.chain})


def vm_migration_rows(db='default'):
    bk = O.bookkeeping_dump(db)
    return [n for (a, n) in (bk['migrations'] or []) if a == 'vm']


def run_config(cfg, driver, stats, add):
    stats['configs'] += 1
    replay = dict(cfg.describe(), driver=driver)
    shape = '%s|%s|%s' % (cfg.kind(), cfg.start if cfg.start in
                          ('empty', 'v0') else 'at-evolution', driver)
    if cfg.db != 'default':
        shape += '|db=' + cfg.db
    if cfg.v1:
        shape += '|stored-signature-v1'
    # ---- start state
    db = cfg.db
    B.fresh_db(db)
    other_before = None
    if db != 'default':
        B.fresh_db('default')
        other_before = B.snapshot('default')
    B.reset_globals()
    if cfg.start != 'empty':
        upto = 0 if cfg.start == 'v0' else int(cfg.start[1:])
        cfg.install_old(upto)
        r0 = EB.upgrade('D2', db=db)
        if not r0.ok:
            add('C10|setup-fails|%s' % r0.exc_type, replay,
                {'error': str(r0.exc)[:300]})
            return
        if cfg.v1:
            # what an old installation has: the signature row is a
            # protocol-0 pickle of the version-1 dictionary
            import pickle
            from django.db import connections
            from django_evolution.models import Version
            v = Version.objects.using(db).order_by('-id')[0]
            legacy = pickle.dumps(v.signature.serialize(sig_version=1),
                                  protocol=0).decode('latin1')
            with connections[db].cursor() as cur:
                cur.execute('UPDATE django_project_version SET signature=%s '
                            'WHERE id=%s', [legacy, v.pk])
    if cfg.aborted:
        cfg.install_final()
        B.reset_globals()
        t0 = O.Tracer(db, fault_at=1, seq=[0], match=lambda q: (
            '"vm_' in q or '"TEMP_TABLE"' in q) and O.is_effect(q))
        r_ab = EB.upgrade(driver, tracer=t0, db=db)
        stats['runs'] += 1
        fired = any(st[3] is not None for st in t0.statements)
        if r_ab.ok or not fired:
            # nothing touched the app's tables (no attempt to abort), or
            # the run fails before it gets there (judged without the
            # aborted attempt)
            stats['aborted_not_applicable'] = \
                stats.get('aborted_not_applicable', 0) + 1
            return
        stats['aborted_attempts'] = stats.get('aborted_attempts', 0) + 1
        shape += '|after-an-aborted-attempt'
    # ---- the hand-over run
    cfg.install_final()
    B.reset_globals()
    seq = [0]
    tracer = O.Tracer(db, seq=seq)
    with O.SignalLog(seq) as log:
        res = EB.upgrade(driver, tracer=tracer, db=db)
    stats['runs'] += 1
    if not res.ok:
        msg = str(getattr(res.exc, 'detailed_error', None) or res.exc)
        if cfg.kind() == 'under-marked' and 'duplicate column' in msg:
            stats['expected_failures'] += 1
            return
        add('C10|handover-fails|%s|%s' % (c03.norm_msg(msg), shape), replay,
            {'error': str(res.exc)[:300],
             'stderr': getattr(res, 'stderr', '')[:200]})
        return
    stats['handovers_completed'] += 1
    if other_before is not None and B.snapshot('default') != other_before:
        add('C10|other-database-modified|%s' % shape, replay,
            {'tables': O.list_tables('default')})
    evs = log.events
    first_mig = [sq for (sq, nm, p) in evs if nm == 'applying_migration'
                 and p.get('migration', ('', ''))[0] == 'vm']
    evo_sql = []
    for idx, (sq, nm, p) in enumerate(evs):
        if nm == 'applying_evolution' and p.get('app_label') == 'vm':
            evo_sql.append(sq)
    if first_mig and evo_sql and max(evo_sql) > min(first_mig):
        add('C10|evolution-applied-after-a-migration|%s' % shape, replay,
            {'events': [(n, p) for _s, n, p in evs][:12]})
    executed = [p['migration'][1] for (_s, nm, p) in evs
                if nm == 'applying_migration' and
                p.get('migration', ('', ''))[0] == 'vm']
    for name in cfg.marked:
        if name in executed and cfg.start != 'empty':
            add('C10|marked-migration-executed|%s' % shape, replay,
                {'executed': executed})
    chain_names = [n for n, _t in cfg.chain]
    if cfg.start != 'empty':
        want_exec = [n for n in chain_names if n not in cfg.marked]
    else:
        # a brand-new database is created by the migrations themselves
        want_exec = None
    if want_exec is not None and executed != want_exec:
        add('C10|executed-migrations-wrong|%s' % shape, replay,
            {'executed': executed, 'want': want_exec})
    if len(executed) != len(set(executed)):
        add('C10|migration-executed-twice|%s' % shape, replay,
            {'executed': executed})
    pos = [chain_names.index(n) for n in executed if n in chain_names]
    if pos != sorted(pos):
        add('C10|migrations-out-of-dependency-order|%s' % shape, replay,
            {'executed': executed})
    rows = vm_migration_rows(db)
    if len(rows) != len(set(rows)):
        dup = sorted(set(n for n in rows if rows.count(n) > 1))
        tag = 'marked' if any(n in cfg.marked for n in dup) else \
            'executed-initial' if dup == ['0001_initial'] else 'executed'
        add('C10|migration-row-duplicated|%s|%s' % (tag, shape), replay,
            {'rows': rows})
    if sorted(set(rows)) != sorted(chain_names):
        add('C10|recorded-migrations-wrong|%s' % shape, replay,
            {'rows': rows, 'want': chain_names})
    sig = D.stored_signature(db).get_app_sig('vm')
    if sig is None or sig.upgrade_method != 'migrations':
        add('C10|upgrade-method-not-migrations|%s' % shape, replay,
            {'method': getattr(sig, 'upgrade_method', None)})
    elif sorted(sig.applied_migrations or []) != sorted(set(rows)):
        add('C10|signature-migrations-differ-from-django_migrations|%s'
            % shape, replay, {'signature': sorted(sig.applied_migrations
                                                  or []), 'rows': rows})
    if cfg.kind() == 'consistent':
        want = R.fresh(P(cfg.vm_app(cfg.m - 1)))['schema']
        cfg.install_final()
        got = {t: d for t, d in O.schema_dump(db, skip=SKIP).items()
               if t.startswith('vm_')}
        if got != want:
            add('C10|schema-differs-from-fresh|%s' % shape, replay,
                {'got': str(got)[:300], 'want': str(want)[:300]})
    # ---- a further run must be a no-op for the app
    image = B.snapshot(db)
    cfg.install_final()
    B.reset_globals()
    from django_evolution.evolve import Evolver
    try:
        ev = Evolver(database_name=db)
        ev.queue_evolve_all_apps()
        if ev.get_evolution_required():
            add('C10|second-run-required|%s' % shape, replay, {})
        hint = Evolver(hinted=True, database_name=db)
        hint.queue_evolve_all_apps()
        texts = [t for t in hint.iter_evolution_content()
                 if t[0].app_label == 'vm']
        if texts:
            add('C10|hint-offered-after-handover|%s' % shape, replay,
                {'text': texts[0][1][:200]})
    except Exception as e:
        add('C10|second-run-crashes|%s|%s' % (type(e).__name__, shape),
            replay, {'error': str(e)[:300]})
    B.restore(image, db)
    cfg.install_final()
    tracer2 = O.Tracer(db)
    res2 = EB.upgrade(driver if driver != 'D2' else 'D3', tracer=tracer2,
                      db=db)
    stats['runs'] += 1
    eff = [q for q, _p in tracer2.effects()
           if not q.upper().startswith('PRAGMA')]
    if not res2.ok:
        add('C10|second-run-fails|%s|%s' % (res2.exc_type, shape), replay,
            {'error': str(res2.exc)[:300]})
    elif eff:
        add('C10|second-run-executes-sql|%s' % shape, replay,
            {'sql': eff[:4]})


def configs(tier):
    out = []
    kmax, mmax = (1, 2) if tier == 'quick' else (2, 3)
    for m in range(1, mmax + 1):
        for k in range(0, min(kmax, m - 1) + 1):
            for s in range(0, m + 1):
                starts_ = ['empty', 'v0'] + ['e%d' % j
                                             for j in range(1, k + 1)]
                for st in starts_:
                    for nb in (False, True):
                        out.append((k, m, s, st, nb, None))
                    # app label different from the package name
                    out.append((k, m, s, st, False, 'vmpkg'))
                    # the hand-over of a non-default database
                    if st != 'empty' or tier != 'quick':
                        out.append((k, m, s, st, False, None, 'other'))
                    # an installation whose stored signature is still a
                    # version-1 pickle
                    if st != 'empty':
                        out.append((k, m, s, st, False, None, 'default',
                                    True))
                    # a first hand-over attempt aborted by a fault, then
                    # the real one
                    if st != 'empty' and s == k + 1:
                        out.append((k, m, s, st, False, None, 'default',
                                    False, True))
    return out


def work(task):
    v1 = aborted = False
    if len(task) == 10:
        k, m, s, st, nb, pkg, db, v1, aborted, driver = task
    elif len(task) == 9:
        k, m, s, st, nb, pkg, db, v1, driver = task
    elif len(task) == 8:
        k, m, s, st, nb, pkg, db, driver = task
    else:
        k, m, s, st, nb, pkg, driver = task
        db = 'default'
    stats = {'configs': 0, 'runs': 0, 'expected_failures': 0,
             'handovers_completed': 0, 'samples': []}
    viol = {}

    def add(fp, replay, detail):
        size = len(S.canon(replay))
        ent = viol.get(fp)
        if ent is None:
            viol[fp] = {'count': 1, 'exemplar': replay, 'detail': detail,
                        'size': size}
        else:
            ent['count'] += 1
            if size < ent['size']:
                ent.update(exemplar=replay, detail=detail, size=size)
    cfg = Config(k, m, s, st, nb, pkg, db, v1, aborted)
    run_config(cfg, driver, stats, add)
    stats['samples'].append(dict(cfg.describe(), driver=driver))
    return stats, viol


def run(tier, seed, confirm=True):
    from vf import bootstrap
    bootstrap.setup()
    t0 = time.time()
    tasks = []
    for i, c in enumerate(configs(tier)):
        for d in ('D2', 'D3', 'D4'):
            if d != 'D2' and tier == 'quick' and i % 3:
                continue
            tasks.append(c + (d,))
    total = {}
    coll = findings.Collector(PROP)
    for stats, viol in explore.run_tasks('vf.checks.c10.work', tasks,
                                         seed=seed, progress=100):
        common.merge_stats(total, stats)
        coll.merge(viol)
    coverage = {
        'states': total['configs'],
        'aborted_first_attempts': total.get('aborted_attempts', 0),
        'aborted_attempt_not_applicable':
            total.get('aborted_not_applicable', 0),
        'transitions': total['runs'],
        'traces_validated_against_impl': total['configs'],
        'samples': total['samples'][:3],
        'exhaustive': True,
        'configurations': total['configs'],
        'expected_failures_under_marked': total['expected_failures'],
        'handover_runs_completed_and_fully_checked':
            total['handovers_completed'],
        'space': 'k evolutions x m migrations x mark_applied prefix x start '
                 'state {empty, V0, at each evolution} x {alone, next to an '
                 'evolution-only app} x drivers',
    }
    print('C10 %s: %d configurations, %d runs' % (tier, total['configs'],
                                                   total['runs']))
    return common.finish(PROP, tier, seed, 'model_checking', coverage, coll,
                         t0, confirm=confirm, assumptions=[
        'migration j+1 of the chain adds the field that evolution j adds, '
        'so mark_applied is consistent iff it names the first k+1 '
        'migrations; under-marked configurations are expected to fail with '
        'a duplicate column and are only counted',
        'on an empty database the migrations create the app, so the '
        '"marked migrations are not executed" clause is only evaluated for '
        'existing databases'])


def replay(path):
    doc = common.load_replay(path)
    r = doc['replay']
    s = len(r['mark_applied'])
    cfg = Config(r['k'], r['m'], s, r['start'], r['neighbour'],
                 r.get('pkg'), r.get('db', 'default'), r.get('v1', False),
                 r.get('aborted', False))
    found = {}

    def add(fp, replay, detail):
        found[fp] = detail
    stats = {'configs': 0, 'runs': 0, 'expected_failures': 0,
             'handovers_completed': 0}
    run_config(cfg, r['driver'], stats, add)
    for fp, d in found.items():
        print('  %s %s' % (fp, str(d)[:400]))
    if doc['fingerprint'] in found:
        print('REPRODUCED %s' % doc['fingerprint'])
        return 1
    print('NOT-REPRODUCED')
    return 0
