"""C07 - a failed upgrade leaves the database as it was and can be retried;
C17 - lifecycle signals are paired and truthful (same runs, see c17.py).

For every generated single-batch evolution (Engine A paths of length <= d,
optionally together with a brand-new model so that model creation and
deferred SQL are part of the batch) executed through the real Evolver task
pipeline: first fault-free with the statement tracer, then once for EVERY
statement index k with an OperationalError injected at the k-th effect
statement, then a fault-free retry."""
import os
import time

from vf import spec as S, mutlang as ML, observe as O, bootstrap as B
from vf import refstate as R, drivers as D, alphabet as AL, materialize as MZ
from vf import engine_b as EB, findings, explore, acceptor
from vf.spec import F, M, A, P
from vf.checks import common, c03

KINDS = ('AddField', 'DeleteField', 'RenameField', 'ChangeField',
         'ChangeMeta')
EXTRA_MODEL = M('Extra', [F('tag', 'Char', max_length=20, db_index=True),
                          F('n', 'Int', unique=True)])


def with_extra(spec, kind=True):
    sp = S.clone(spec)
    if kind == 'two-apps':
        # two brand-new apps: their models are created in ONE batch
        sp['apps'].append(A('vn1', [M('Fresh1', [
            F('x', 'Char', max_length=20, db_index=True)])]))
        sp['apps'].append(A('vn2', [M('Fresh2', [
            F('y', 'Int', null=True)])]))
    else:
        sp['apps'][0]['models'].append(S.clone(EXTRA_MODEL))
    return sp


class ProgramRun(object):
    """One evolution program (list of steps of app 'va') from a start."""

    def __init__(self, start, steps, rows, extra_model, purge=False,
                 db='default'):
        self.purge = purge
        self.db = db
        self.start = start
        self.steps = steps
        self.rows = rows
        self.extra = extra_model
        final = start
        for label, mj in steps:
            final = ML.apply(final, label, mj)
        self.final = with_extra(final, extra_model) if extra_model \
            else final
        self.final_plain = final
        if purge:
            # a stale app (installed in the database, gone from the code)
            with_old = S.clone(start)
            # three tables: two models and a many-to-many table
            with_old['apps'].append(A('vold', [
                M('Old', [F('x', 'Char', max_length=20, db_index=True)]),
                M('Older', [F('y', 'Int', null=True),
                            F('olds', 'M2M', to='vold.Old')])]))
            self.base_image = D.baseline(with_old, rows=rows, db=db)
        else:
            self.base_image = D.baseline(start, rows=rows, db=db)

    def extra_apps(self):
        return ('vn1', 'vn2') if self.extra == 'two-apps' else ()

    def execute(self, fault_at=None, bookkeeping=False):
        from django_evolution import management
        MZ.install(self.final)
        B.restore(self.base_image, self.db)
        B.reset_globals()
        seq = [0]
        if bookkeeping:
            # fault targets = the statements that save the version and the
            # evolution rows (C17 only)
            match = lambda q: ('"django_project_version"' in q or
                               '"django_evolution"' in q)
        else:
            match = lambda q: not acceptor.is_bookkeeping(q)
        tracer = O.Tracer(self.db, fault_at=fault_at, seq=seq, match=match)
        real = [ML.to_real(mj) for _l, mj in self.steps]
        evos = [{'label': 'e1', 'mutations': real}] if real else []
        lock_before = management._evolve_lock
        with O.SignalLog(seq) as log:
            res = D.d2('va', evos, tracer=tracer, purge=self.purge,
                       db=self.db, extra_apps=self.extra_apps())
        return {'res': res, 'events': log.events,
                'statements': tracer.statements, 'tracer': tracer,
                'lock_before': lock_before,
                'lock_after': management._evolve_lock}


def judge_program(pr, stats, add7, add17):
    desc = c03.abstract_path(pr.steps) + (' + new model' if pr.extra else '') \
        + (' + purge' if pr.purge else '')
    B.restore(pr.base_image, pr.db)
    MZ.install(pr.final)
    pre = EB.canonical_state(alias=pr.db)
    run0 = pr.execute()
    stats['programs'] += 1
    if not run0['res'].ok:
        stats['skipped_faultfree_fails'] += 1
        return
    # domain: the fault-free run must itself be C01-clean
    ent = R.fresh(pr.final)
    schema = O.schema_dump(pr.db, skip=c03.SKIP_TABLES)
    if schema != ent['schema']:
        stats['skipped_not_c01_clean'] += 1
        return
    good = EB.canonical_state(alias=pr.db)
    effects = run0['tracer'].effects()
    n = len(effects)
    stats['statements'] += n
    stats['max_statements'] = max(stats['max_statements'], n)
    # C17 on the fault-free run
    for clause, detail in acceptor.check(
            run0['events'], run0['statements'], 'ok',
            run0['lock_before'], run0['lock_after'], saved=True,
            purge=pr.purge):
        add17('C17|%s|fault-free|%s' % (clause, shape17(pr)), pr, None,
              detail)
    stats['runs'] += 1
    if n == 0:
        stats['programs_without_sql'] += 1
    for k in range(1, n + 1):
        run = pr.execute(fault_at=k)
        stats['runs'] += 1
        stats['faulted_runs'] += 1
        res = run['res']
        sk = effects[k - 1]
        where = stmt_shape(sk[0]) + (
            '|with-two-new-apps' if pr.extra == 'two-apps' else
            '|with-new-model' if pr.extra else '') \
            + ('|with-purge' if pr.purge else '') \
            + ('|db=other' if pr.db != 'default' else '')
        if res.ok:
            add7('C07|fault-swallowed|%s' % where, pr, k,
                 {'statement': sk[0]})
            continue
        post = EB.canonical_state(alias=pr.db)
        if post != pre:
            what = diff_kind(pre, post)
            if pr.purge:
                # is the purge itself half done?  (the stale app owns three
                # tables; a failed purge must leave all of them)
                left = [t for t in O.list_tables(pr.db)
                        if t.startswith('vold_')]
                if len(left) < 3:
                    what += ':stale-app-tables-partly-dropped(%d-left)' \
                        % len(left)
            add7('C07|state-changed-after-failed-run|%s|%s' % (
                what, where), pr, k,
                {'statement': sk[0], 'program': desc})
        exc = res.exc
        if res.exc_type != 'EvolutionExecutionError':
            add7('C07|error-not-an-EvolutionExecutionError|%s|%s' % (
                res.exc_type, where), pr, k, {'error': str(exc)[:200]})
        else:
            last = getattr(exc, 'last_sql_statement', None)
            if not last or last[0] != sk[0]:
                add7('C07|error-does-not-identify-statement|%s' % where, pr,
                     k, {'reported': str(last)[:200], 'failed': sk[0]})
        # C17 on the faulted run
        for clause, detail in acceptor.check(
                run['events'], run['statements'], 'failed',
                run['lock_before'], run['lock_after'], purge=pr.purge):
            add17('C17|%s|fault|%s' % (clause, where), pr, k, detail)
        # retry on the very Evolver that failed (evolve() may be called
        # again as long as it has not succeeded), the cause removed; only
        # where the failed run left the database as it was (otherwise that
        # is already reported and the prepared state is stale by definition)
        ev = getattr(res, 'evolver', None)
        if ev is not None and res.stage == 'execute' and not pr.purge \
                and post == pre:
            image_failed = B.snapshot(pr.db)
            res1 = D.RunResult()
            try:
                ev.evolve()
                res1.ok = True
            except Exception as e:  # noqa
                res1.exc = e
                D._abort_transactions(pr.db)
            stats['runs'] += 1
            stats['same_evolver_retries'] = \
                stats.get('same_evolver_retries', 0) + 1
            if not res1.ok:
                add7('C07|retry-on-the-same-evolver-fails|%s|%s' % (
                    c03.norm_msg(str(getattr(res1.exc, 'detailed_error',
                                             None) or res1.exc)), where),
                     pr, k, {'error': str(res1.exc)[:300]})
            elif EB.canonical_state(alias=pr.db) != good:
                add7('C07|retry-on-the-same-evolver-differs|%s|%s' % (
                    diff_kind(good, EB.canonical_state(alias=pr.db)),
                    where), pr, k, {})
            B.restore(image_failed, pr.db)
        # retry without the fault, on the database as the failed run left it
        B.reset_globals()
        MZ.install(pr.final)
        real = [ML.to_real(mj) for _l, mj in pr.steps]
        evos = [{'label': 'e1', 'mutations': real}] if real else []
        res2 = D.d2('va', evos, purge=pr.purge, db=pr.db,
                    extra_apps=pr.extra_apps())
        stats['runs'] += 1
        if not res2.ok:
            if post == pre:
                add7('C07|retry-fails-on-unchanged-database|%s' % where, pr,
                     k, {'error': str(res2.exc)[:300]})
            else:
                add7('C07|retry-fails|%s|%s' % (
                    c03.norm_msg(str(getattr(res2.exc, 'detailed_error',
                                             None) or res2.exc)), where),
                     pr, k, {'error': str(res2.exc)[:300]})
        elif EB.canonical_state(alias=pr.db) != good:
            add7('C07|retry-result-differs|%s' % where, pr, k, {})
    if n and not pr.extra and not pr.purge and pr.db == 'default':
        bookkeeping_faults(pr, stats, add17)


def bookkeeping_faults(pr, stats, add17):
    """Faults at the statements that save the bookkeeping: only the signal
    acceptor is evaluated (the C07 quantifier stops at the batch)."""
    run0 = pr.execute(bookkeeping=True)
    n = len(run0['tracer'].effects())
    for k in range(1, n + 1):
        run = pr.execute(fault_at=k, bookkeeping=True)
        stats['runs'] += 1
        stats['bookkeeping_faults'] = stats.get('bookkeeping_faults', 0) + 1
        if run['res'].ok:
            continue
        for clause, detail in acceptor.check(
                run['events'], run['statements'], 'failed',
                run['lock_before'], run['lock_after'], purge=pr.purge):
            add17('C17|%s|fault-in-bookkeeping-save' % clause, pr, k, detail)


def command_faults(start, steps, rows, stats, add7, add17):
    """The same fault enumeration through the `evolve --execute` command
    (evolutions on disk): a fault at any statement - the batch's or the
    bookkeeping's - must make the command fail, the error output must show
    the statement that failed, and the database must be as before."""
    from vf import engine_b
    hist = engine_b.History(start, [('va', 'e1', [mj for _l, mj in steps])])
    hist.install(0)
    B.fresh_db('default')
    B.reset_globals()
    if not engine_b.upgrade('D2').ok:
        return
    from vf import rows as RW
    RW.populate(start, rows, 'default')
    image = B.snapshot('default')
    hist.install(1)
    pre = EB.canonical_state(1)

    class _PR(object):      # what the replay record needs
        pass
    pr = _PR()
    pr.start, pr.steps, pr.rows, pr.extra = start, steps, rows, 'command'
    pr.purge, pr.db = False, 'default'
    for bookkeeping in (False, True):
        if bookkeeping:
            match = lambda q: ('"django_project_version"' in q or
                               '"django_evolution"' in q)
        else:
            match = lambda q: not acceptor.is_bookkeeping(q)
        B.restore(image, 'default')
        B.reset_globals()
        t0 = O.Tracer('default', match=match)
        r0 = D.d3(tracer=t0)
        if not r0.ok:
            return
        effects = t0.effects()
        stats['programs'] += 1
        for k in range(1, len(effects) + 1):
            B.restore(image, 'default')
            B.reset_globals()
            seq = [0]
            tr = O.Tracer('default', fault_at=k, seq=seq, match=match)
            with O.SignalLog(seq) as log:
                res = D.d3(tracer=tr)
            stats['runs'] += 1
            stats['faulted_runs'] += 1
            sk = effects[k - 1]
            where = stmt_shape(sk[0]) + '|command' + (
                '|bookkeeping' if bookkeeping else '')
            names = [e[1] for e in log.events]
            if res.ok:
                add7('C07|fault-swallowed|%s' % where, pr, k,
                     {'statement': sk[0]})
                if 'evolving_failed' in names:
                    add17('C17|command-reports-success-although-'
                          'evolving_failed-was-sent|%s' % where, pr, k,
                          {'stdout': res.stdout[-200:]})
                continue
            if res.exc_type != 'CommandError':
                add7('C07|error-not-a-CommandError|%s|%s' % (
                    res.exc_type, where), pr, k,
                    {'error': str(res.exc)[:200]})
            elif not bookkeeping and sk[0] not in (
                    getattr(res, 'stderr', '') + str(res.exc)):
                add7('C07|error-does-not-identify-statement|%s' % where, pr,
                     k, {'stderr': getattr(res, 'stderr', '')[:300],
                         'failed': sk[0]})
            if not bookkeeping and EB.canonical_state(1) != pre:
                add7('C07|state-changed-after-failed-run|%s|%s' % (
                    diff_kind(pre, EB.canonical_state(1)), where), pr, k,
                    {'statement': sk[0]})


def atomic_caller_faults(start, steps, rows, stats, add7):
    """The upgrade is called from inside the caller's own
    transaction.atomic() block, the caller catches the failure inside the
    block and lets the block commit: nothing of the failed evolution may
    be in the database afterwards."""
    from django.db import transaction
    pr = ProgramRun(start, steps, rows, False)
    pr.extra = 'in-atomic'
    MZ.install(pr.final)
    B.restore(pr.base_image, 'default')
    pre = EB.canonical_state()
    run0 = pr.execute()
    if not run0['res'].ok:
        return
    effects = run0['tracer'].effects()
    stats['programs'] += 1
    real = [ML.to_real(mj) for _l, mj in steps]
    evos = [{'label': 'e1', 'mutations': real}] if real else []
    for k in range(1, len(effects) + 1):
        MZ.install(pr.final)
        B.restore(pr.base_image, 'default')
        B.reset_globals()
        tracer = O.Tracer('default', fault_at=k,
                          match=lambda q: not acceptor.is_bookkeeping(q))
        res = None
        try:
            with transaction.atomic(using='default'):
                res = D.d2('va', evos, tracer=tracer, abort=False)
        except Exception as e:          # the block itself refused to commit
            D._abort_transactions('default')
        stats['runs'] += 1
        stats['faulted_runs'] += 1
        if res is not None and res.ok:
            continue
        D._abort_transactions('default')
        post = EB.canonical_state()
        if post != pre:
            add7('C07|state-changed-after-failed-run|%s|%s|in-callers-'
                 'atomic-block' % (diff_kind(pre, post),
                                   stmt_shape(effects[k - 1][0])), pr, k,
                 {'statement': effects[k - 1][0]})


def stmt_shape(sql):
    s = sql.strip()
    up = s.upper()
    for pref in ('CREATE TABLE "TEMP_TABLE"', 'INSERT INTO "TEMP_TABLE"',
                 'ALTER TABLE "TEMP_TABLE" RENAME', 'DROP TABLE',
                 'CREATE UNIQUE INDEX', 'CREATE INDEX', 'DROP INDEX',
                 'CREATE TABLE', 'ALTER TABLE', 'UPDATE', 'INSERT',
                 'PRAGMA', 'DELETE', 'SELECT'):
        if up.startswith(pref.upper()):
            if pref == 'ALTER TABLE':
                if 'RENAME COLUMN' in up:
                    return 'ALTER TABLE RENAME COLUMN'
                if 'RENAME TO' in up:
                    return 'ALTER TABLE RENAME TO'
                if 'ADD COLUMN' in up:
                    return 'ALTER TABLE ADD COLUMN'
            if pref == 'PRAGMA':
                return s.rstrip(';')
            return pref
    return up.split(' ')[0]


def diff_kind(pre, post):
    import json
    a, b = json.loads(pre), json.loads(post)
    names = ['code', 'schema', 'rows', 'evolutions', 'signature',
             'migrations']
    return '+'.join(n for n, x, y in zip(names, a, b) if x != y)


def shape17(pr):
    return 'two-new-apps' if pr.extra == 'two-apps' else \
        'new-model' if pr.extra else 'evolution-only'


def work(task):
    name, start, steps, rows, extra = task[:5]
    purge = task[5] if len(task) > 5 else False
    db = task[6] if len(task) > 6 else 'default'
    stats = {'programs': 0, 'runs': 0, 'faulted_runs': 0, 'statements': 0,
             'max_statements': 0, 'skipped_faultfree_fails': 0,
             'skipped_not_c01_clean': 0, 'programs_without_sql': 0,
             'samples': []}
    v7, v17 = {}, {}

    def adder(store):
        def add(fp, pr, k, detail):
            replay = {'start': pr.start, 'steps': pr.steps, 'rows': pr.rows,
                      'extra_model': pr.extra, 'fault_at': k,
                      'purge': pr.purge, 'db': pr.db}
            size = len(S.canon(replay))
            ent = store.get(fp)
            if ent is None:
                store[fp] = {'count': 1, 'exemplar': replay,
                             'detail': detail, 'size': size}
            else:
                ent['count'] += 1
                if size < ent['size']:
                    ent.update(exemplar=replay, detail=detail, size=size)
        return add
    if extra == 'in-atomic':
        atomic_caller_faults(start, steps, rows, stats, adder(v7))
        return name, stats, v7, v17
    if extra == 'command':
        command_faults(start, steps, rows, stats, adder(v7), adder(v17))
        return name, stats, v7, v17
    pr = ProgramRun(start, steps, rows, extra, purge=purge, db=db)
    judge_program(pr, stats, adder(v7), adder(v17))
    if stats['faulted_runs']:
        stats['samples'].append({'start': 'narrow/two-model start',
                                 'steps': steps, 'extra_model': extra,
                                 'faults_at': '1..%d'
                                 % stats['faulted_runs']})
    return name, stats, v7, v17


def gen_programs(start, depth, level, kinds):
    out = []

    def rec(spec, steps, deleted):
        if steps:
            out.append(list(steps))
        if len(steps) == depth:
            return
        for label, mj in AL.enabled(spec, level=level, kinds=kinds,
                                    reuse_names=tuple(deleted)):
            rec(ML.apply(spec, label, mj), steps + [(label, mj)],
                deleted + ([mj[2]] if mj[0] in ('DeleteField', 'RenameField')
                           else []))
    rec(start, [], [])
    return out


def tasks_for(tier):
    from vf import bootstrap
    bootstrap.setup()
    tasks = []
    only = os.environ.get('VERIF_ONLY')

    def add(name, start, depth, level, kinds, extras):
        if only and only not in name:
            return
        progs = gen_programs(start, depth, level, kinds)
        for i, steps in enumerate(progs):
            for extra in extras:
                tasks.append(('%s#%d%s' % (name, i, '+m' if extra else ''),
                              start, steps, 'R2', extra))
    narrow = c03.narrow_start()
    two = c03.two_model_start()
    if tier == 'quick':
        add('narrow-d1', narrow, 1, 'full', KINDS, (False, True))
        add('narrow-d2', narrow, 2, 'lite', KINDS, (False,))
        add('two-model-d1', two, 1, 'full', None, (False,))
        tasks.append(('new-model-only', narrow, [], 'R2', True))
        # called from inside the caller's own atomic block
        for i, steps in enumerate(gen_programs(narrow, 1, 'lite', KINDS)):
            tasks.append(('inatomic#%d' % i, narrow, steps, 'R2',
                          'in-atomic'))
        # the same through the evolve command, bookkeeping faults included
        for i, steps in enumerate(gen_programs(narrow, 1, 'lite', KINDS)):
            tasks.append(('cmd#%d' % i, narrow, steps, 'R2', 'command'))
        # two brand-new apps whose models are created in one batch, alone
        # and together with an evolution
        tasks.append(('two-new-apps-only', narrow, [], 'R2', 'two-apps'))
        for i, steps in enumerate(gen_programs(narrow, 1, 'lite', KINDS)):
            tasks.append(('two-new-apps#%d' % i, narrow, steps, 'R2',
                          'two-apps'))
        # an evolution and a purge of a stale app in the same run (two
        # task classes)
        for i, steps in enumerate(gen_programs(narrow, 1, 'lite', KINDS)):
            tasks.append(('purge#%d' % i, narrow, steps, 'R2', False, True))
        tasks.append(('purge-only', narrow, [], 'R2', False, True))
        # the same on a non-default database
        for i, steps in enumerate(gen_programs(narrow, 1, 'lite', KINDS)):
            tasks.append(('otherdb#%d' % i, narrow, steps, 'R2', False,
                          False, 'other'))
    else:
        for i, steps in enumerate(gen_programs(narrow, 2, 'lite', KINDS)):
            tasks.append(('otherdb#%d' % i, narrow, steps, 'R2', False,
                          False, 'other'))
        for i, steps in enumerate(gen_programs(narrow, 2, 'lite', KINDS)):
            tasks.append(('purge#%d' % i, narrow, steps, 'R2', False, True))
        tasks.append(('purge-only', narrow, [], 'R2', False, True))
        add('narrow-d2', narrow, 2, 'full', KINDS, (False, True))
        add('narrow-d3', narrow, 3, 'lite', KINDS, (False,))
        add('two-model-d2', two, 2, 'lite', KINDS + ('RenameModel',
                                                     'DeleteModel'),
            (False, True))
        tasks.append(('new-model-only', narrow, [], 'R2', True))
        tasks.append(('two-new-apps-only', narrow, [], 'R2', 'two-apps'))
        for i, steps in enumerate(gen_programs(narrow, 2, 'lite', KINDS)):
            tasks.append(('two-new-apps#%d' % i, narrow, steps, 'R2',
                          'two-apps'))
        for i, steps in enumerate(gen_programs(narrow, 2, 'lite', KINDS)):
            tasks.append(('cmd#%d' % i, narrow, steps, 'R2', 'command'))
    return tasks


def run(tier, seed, confirm=True, prop='C07'):
    t0 = time.time()
    tasks = tasks_for(tier)
    total = {}
    c7 = findings.Collector('C07')
    c17 = findings.Collector('C17')
    for name, stats, v7, v17 in explore.run_tasks(
            'vf.checks.c07.work', tasks, seed=seed, progress=200):
        common.merge_stats(total, stats)
        c7.merge(v7)
        c17.merge(v17)
    if prop == 'C17':
        return total, c17, tasks
    coverage = {
        'evaluations': total['runs'],
        'distinct_nontrivial': total['faulted_runs'],
        'rule': 'every reference-valid single-batch evolution of the stated '
                'alphabets/depths (optionally with a brand-new model), '
                'executed through Evolver+EvolveAppTask; non-trivial = a run '
                'with a fault injected at one specific effect statement '
                '(program x statement index pairs are distinct by '
                'construction); every statement index 1..N of every program '
                'is faulted',
        'samples': total['samples'][:3],
        'exhaustive': True,
        'programs': total['programs'],
        'programs_skipped_faultfree_run_fails':
            total['skipped_faultfree_fails'],
        'programs_skipped_not_c01_clean': total['skipped_not_c01_clean'],
        'programs_without_sql': total['programs_without_sql'],
        'statements_total': total['statements'],
        'max_statements_in_a_batch': total['max_statements'],
        'faulted_runs': total['faulted_runs'],
        'tasks': len(tasks),
    }
    print('C07 %s: %d programs (%d skipped), %d statements, %d faulted runs'
          ', %d runs in all' % (
              tier, total['programs'], total['skipped_faultfree_fails'] +
              total['skipped_not_c01_clean'], total['statements'],
              total['faulted_runs'], total['runs']))
    return common.finish('C07', tier, seed, 'fault_enumeration', coverage,
                         c7, t0, confirm=confirm, assumptions=[
        'faults are OperationalError raised by connection.execute_wrapper '
        'at the k-th effect statement that does not touch the bookkeeping '
        'tables',
        'the retry runs in the same process (process globals reset)',
        'programs whose fault-free run fails or is not C01-clean are outside '
        'the domain'])


def replay(path, prop='C07'):
    doc = common.load_replay(path)
    r = doc['replay']
    steps = [tuple(s) for s in r['steps']]
    stats = {'programs': 0, 'runs': 0, 'faulted_runs': 0, 'statements': 0,
             'max_statements': 0, 'skipped_faultfree_fails': 0,
             'skipped_not_c01_clean': 0, 'programs_without_sql': 0}
    v7, v17 = {}, {}

    def adder(store):
        def add(fp, pr, k, detail):
            store.setdefault(fp, []).append((k, detail))
        return add
    pr = ProgramRun(r['start'], steps, r.get('rows'), r.get('extra_model'),
                    purge=r.get('purge', False), db=r.get('db', 'default'))
    judge_program(pr, stats, adder(v7), adder(v17))
    store = v7 if prop == 'C07' else v17
    for fp, items in store.items():
        print('  %s: %s' % (fp, str(items[:2])[:500]))
    if doc['fingerprint'] in store:
        print('REPRODUCED %s' % doc['fingerprint'])
        return 1
    print('NOT-REPRODUCED %s (got %s)' % (doc['fingerprint'], list(store)))
    return 0
