"""C15 - purging and deleting remove exactly what was named, nothing else.

(1) For generated projects of 3-4 apps (cross-app relations, M2M fields,
    custom db_table names that are prefixes of each other) every
    dependency-closed non-empty subset of apps is removed from the installed
    set, with and without --purge, through `evolve --execute` (D3) and
    through Evolver.queue_purge_old_apps() (D2).
(2) Every DeleteModel / DeleteApplication sequence (depth <= 2) on the same
    projects through the bare AppMutator (Engine A) with rows present."""
import itertools
import time

from vf import spec as S, observe as O, bootstrap as B, drivers as D
from vf import materialize as MZ, engine_a as EA, engine_b as EB
from vf import mutlang as ML, refstate as R
from vf import findings, explore
from vf.spec import F, M, A, P
from vf.checks import common, c01

PROP = 'C15'
SKIP = O.BOOKKEEPING_TABLES + ('django_content_type',)


def projects():
    out = []
    out.append(('related', P(
        A('va', [M('Author', [F('name', 'Char', max_length=20),
                              F('friends', 'M2M', to='va.Author')]),
                 M('Tag', [F('label', 'Char', max_length=20)],
                   db_table='va_t')]),
        A('vab', [M('Book', [F('title', 'Char', max_length=20),
                             F('author', 'FK', to='va.Author', null=True),
                             F('tags', 'M2M', to='va.Tag')],
                    db_table='va_t_book'),
                  M('Shelf', [F('books', 'M2M', to='vab.Book',
                                db_table='va_t_book_x')])]),
        A('vc', [M('Review', [F('stars', 'Int'),
                              F('book', 'FK', to='vab.Book', null=True)])]),
    )))
    out.append(('independent', P(
        A('shop', [M('Item', [F('name', 'Char', max_length=20,
                                db_index=True)], db_table='shop')]),
        A('shopx', [M('Item', [F('name', 'Char', max_length=20),
                               F('parts', 'M2M', to='shopx.Item')],
                      db_table='shop_item')]),
        A('shopxy', [M('Extra', [F('n', 'Int', unique=True)],
                       db_table='shop_item_parts_extra')]),
        A('vd', [M('Parent', [F('name', 'Char', max_length=20)]),
                 M('Child', [F('parent', 'FK', to='vd.Parent')])]),
    )))
    return out


def owned_tables(project, labels):
    out = set()
    for label, m in S.iter_models(project):
        if label in labels:
            out.add(S.table_name(label, m))
            for f in m['fields']:
                if f['type'] == 'M2M':
                    out.add(S.m2m_table(label, m, f))
    return out


def closed_subsets(project):
    labels = [a['label'] for a in project['apps']]
    deps = {l: set() for l in labels}     # l depends on ...
    for label, m in S.iter_models(project):
        for f in m['fields']:
            if f['type'] in S.RELATION_TYPES:
                t = f['attrs']['to'].split('.')[0]
                if t != label:
                    deps[label].add(t)
    out = []
    for r in range(1, len(labels) + 1):
        for sub in itertools.combinations(labels, r):
            sub = set(sub)
            # every app that depends on a removed app must be removed too
            if all(not (deps[l] & sub) or l in sub for l in labels):
                out.append(sorted(sub))
    return out


def minus(project, removed):
    return {'apps': [S.clone(a) for a in project['apps']
                     if a['label'] not in removed]}


def stored_app_ids():
    sig = D.stored_signature()
    return sorted(a.app_id for a in sig.app_sigs)


def run_case(pname, project, removed, purge, driver, stats, add):
    stats['cases'] += 1
    base = D.baseline(project, rows='R2')
    B.restore(base, 'default')
    before_tables = set(O.list_tables('default'))
    before_ids = stored_app_ids()
    images = {t: O.raw_table_image(t) for t in before_tables
              if t not in SKIP}
    remaining = minus(project, removed)
    MZ.install(remaining)
    B.restore(base, 'default')
    B.reset_globals()
    tracer = O.Tracer('default')
    if driver == 'D3':
        res = D.d3(tracer=tracer, purge=purge)
    else:
        from django_evolution.evolve import Evolver
        res = D.RunResult()
        try:
            with tracer.active():
                ev = Evolver()
                ev.queue_evolve_all_apps()
                if purge:
                    ev.queue_purge_old_apps()
                if ev.get_evolution_required():
                    ev.evolve()
            res.ok = True
        except Exception as e:
            res.exc, res.exc_type = e, type(e).__name__
            D._abort_transactions('default')
    stats['runs'] += 1
    replay = {'project': pname, 'removed': removed, 'purge': purge,
              'driver': driver}
    shape = '%s|%s' % ('purge' if purge else 'no-purge', driver)
    if not res.ok:
        from vf.checks import c03
        add('C15|run-fails|%s|%s|%s' % (res.exc_type,
                                        c03.norm_msg(str(res.exc)), shape),
            replay, {'error': str(res.exc)[:300]})
        return
    after_tables = set(O.list_tables('default'))
    owned = owned_tables(project, removed)
    dropped = before_tables - after_tables
    created = after_tables - before_tables
    want = owned if purge else set()
    if dropped - want:
        add('C15|dropped-tables-not-owned-by-removed-apps|%s' % shape,
            replay, {'tables': sorted(dropped - want)})
    if want - dropped:
        add('C15|owned-tables-not-dropped|%s' % shape, replay,
            {'tables': sorted(want - dropped)})
    if created:
        add('C15|tables-created|%s' % shape, replay,
            {'tables': sorted(created)})
    for t in sorted(after_tables & set(images)):
        if t in want:
            continue
        if O.raw_table_image(t) != images[t]:
            add('C15|other-table-modified|%s' % shape, replay, {'table': t})
            break
    after_ids = stored_app_ids()
    want_ids = sorted(set(before_ids) - set(removed)) if purge \
        else before_ids
    if after_ids != want_ids:
        add('C15|stored-signature-apps-wrong|%s' % shape, replay,
            {'want': want_ids, 'got': after_ids})


def run_emptied_case(purge, driver, stats, add, second=True):
    """A stale app whose models were all deleted by its own evolution
    earlier: its (empty) signature entry must still be purgeable - alone
    (nothing else in the run needs saving) and next to a second stale app
    that still owns a table (the emptied one comes first in the
    signature)."""
    stats['cases'] += 1
    v0 = P(A('va', [M('Item', [F('name', 'Char', max_length=20)])]),
           A('vx', [M('Gone', [F('n', 'Int', null=True)])]))
    if second:
        v0['apps'].append(A('vy', [M('Still', [F('s', 'Char',
                                                 max_length=20)])]))
    hist = EB.History(v0, [('vx', 'e1', [['DeleteModel', 'Gone']])])
    hist.install(0)
    B.fresh_db('default')
    B.reset_globals()
    r = D.d2_all()
    hist.install(1)
    B.reset_globals()
    r = D.d2_all()
    if not r.ok:
        add('C15|emptied-app|setup-fails|%s' % r.exc_type,
            {'scenario': 'emptied-app'}, {'error': str(r.exc)[:200]})
        return
    before_tables = set(O.list_tables('default'))
    before_ids = stored_app_ids()
    MZ.install(P(S.clone(v0['apps'][0])),
               evolutions={'va': {'SEQUENCE': [], 'modules': {}}})
    B.reset_globals()
    replay = {'scenario': 'emptied-app', 'purge': purge, 'driver': driver,
              'second': second}
    shape = '%s|%s%s' % ('purge' if purge else 'no-purge', driver,
                         '' if second else '|alone')
    if driver == 'D3':
        res = D.d3(purge=purge)
    else:
        from django_evolution.evolve import Evolver
        res = D.RunResult()
        try:
            ev = Evolver()
            ev.queue_evolve_all_apps()
            if purge:
                ev.queue_purge_old_apps()
            if ev.get_evolution_required():
                ev.evolve()
            res.ok = True
        except Exception as e:
            res.exc, res.exc_type = e, type(e).__name__
            D._abort_transactions('default')
    stats['runs'] += 1
    if not res.ok:
        add('C15|emptied-app|run-fails|%s|%s' % (res.exc_type, shape),
            replay, {'error': str(res.exc)[:300]})
        return
    want_tables = before_tables - ({'vy_still'} if purge and second
                                   else set())
    if set(O.list_tables('default')) != want_tables:
        add('C15|emptied-app|tables-wrong|%s' % shape, replay,
            {'got': sorted(set(O.list_tables('default')) ^ want_tables)})
    want = sorted(set(before_ids) - {'vx', 'vy'}) if purge else before_ids
    got = stored_app_ids()
    if got != want:
        add('C15|emptied-app|stored-signature-apps-wrong|%s' % shape,
            replay, {'want': want, 'got': got})


def run_migrations_app_case(purge, driver, stats, add):
    """A stale app that was managed by Django migrations (the stored
    signature lists its applied migrations): purging it must drop its
    tables and remove its entry exactly like an evolutions-managed app."""
    from vf.checks import c09_pipeline as CP
    stats['cases'] += 1
    va = A('va', [M('Item', [F('name', 'Char', max_length=20)])])
    vm = A('vm', [M('Doc', [F('title', 'Char', max_length=20),
                            F('x', 'Int', null=True)])])
    evos = {'va': {'SEQUENCE': [], 'modules': {}}}
    migs = {'vm': [('0001_initial', CP.MIG1), ('0002_add_x', CP.MIG2)]}
    MZ.install(P(S.clone(va), vm), evolutions=evos, migrations=migs)
    B.fresh_db('default')
    B.reset_globals()
    r = D.d2_all()
    replay = {'scenario': 'migrations-app', 'purge': purge,
              'driver': driver}
    shape = '%s|%s' % ('purge' if purge else 'no-purge', driver)
    if not r.ok:
        add('C15|migrations-app|setup-fails|%s' % r.exc_type, replay,
            {'error': str(r.exc)[:200]})
        return
    before_tables = set(O.list_tables('default'))
    before_ids = stored_app_ids()
    image_item = O.raw_table_image('va_item')
    MZ.install(P(S.clone(va)), evolutions=evos)
    B.reset_globals()
    if driver == 'D3':
        res = D.d3(purge=purge)
    else:
        from django_evolution.evolve import Evolver
        res = D.RunResult()
        try:
            ev = Evolver()
            ev.queue_evolve_all_apps()
            if purge:
                ev.queue_purge_old_apps()
            if ev.get_evolution_required():
                ev.evolve()
            res.ok = True
        except Exception as e:
            res.exc, res.exc_type = e, type(e).__name__
            D._abort_transactions('default')
    stats['runs'] += 1
    if not res.ok:
        add('C15|migrations-app|run-fails|%s|%s' % (res.exc_type, shape),
            replay, {'error': str(res.exc)[:300]})
        return
    dropped = before_tables - set(O.list_tables('default'))
    want_drop = {'vm_doc'} if purge else set()
    if dropped != want_drop:
        add('C15|migrations-app|dropped-tables-wrong|%s' % shape, replay,
            {'dropped': sorted(dropped), 'want': sorted(want_drop)})
    if O.raw_table_image('va_item') != image_item:
        add('C15|migrations-app|other-table-modified|%s' % shape, replay,
            {})
    want = sorted(set(before_ids) - {'vm'}) if purge else before_ids
    got = stored_app_ids()
    if got != want:
        add('C15|migrations-app|stored-signature-apps-wrong|%s' % shape,
            replay, {'want': want, 'got': got})
    if purge:
        # a later run must not report the app as stale again
        B.reset_globals()
        from django_evolution.evolve import Evolver
        ev = Evolver()
        ev.queue_purge_old_apps()
        try:
            again = ev.get_evolution_required()
        except Exception as e:
            again = 'raises %s' % type(e).__name__
        if again:
            add('C15|migrations-app|purge-needed-again|%s' % shape, replay,
                {'required': str(again)})


def run_retire_case(driver, stats, add):
    """The usual way to retire an app: an evolution of a remaining app
    drops its ForeignKey to the app, the app leaves INSTALLED_APPS, and one
    `evolve --purge` run does both."""
    stats['cases'] += 1
    va0 = A('va', [M('Item', [F('name', 'Char', max_length=20),
                              F('ref', 'FK', to='vold.Old', null=True)])])
    vold = A('vold', [M('Old', [F('x', 'Char', max_length=20)])])
    hist = EB.History(P(va0, vold), [('va', 'e1', [['DeleteField', 'Item',
                                                    'ref']])])
    hist.install(0)
    B.fresh_db('default')
    B.reset_globals()
    r = D.d2_all()
    replay = {'scenario': 'retire-app', 'driver': driver}
    if not r.ok:
        add('C15|retire-app|setup-fails|%s' % r.exc_type, replay,
            {'error': str(r.exc)[:200]})
        return
    from vf import rows as RW
    RW.populate(hist.specs[0], 'R2', 'default')
    before_ids = stored_app_ids()
    # code version 1 without the retired app
    final = P(S.clone(hist.specs[1]['apps'][0]))
    MZ.install(final, evolutions={'va': {'SEQUENCE': ['e1'], 'modules': {
        'e1': {'MUTATIONS': [ML.to_real(['DeleteField', 'Item', 'ref'])]}}}})
    B.reset_globals()
    if driver == 'D3':
        res = D.d3(purge=True)
    else:
        from django_evolution.evolve import Evolver
        res = D.RunResult()
        try:
            ev = Evolver()
            ev.queue_evolve_all_apps()
            ev.queue_purge_old_apps()
            ev.evolve()
            res.ok = True
        except Exception as e:
            res.exc, res.exc_type = e, type(e).__name__
            D._abort_transactions('default')
    stats['runs'] += 1
    if not res.ok:
        add('C15|retire-app|run-fails|%s|%s' % (res.exc_type, driver),
            replay, {'error': str(res.exc)[:300]})
        return
    tables = set(O.list_tables('default'))
    if 'vold_old' in tables:
        add('C15|retire-app|owned-tables-not-dropped|%s' % driver, replay,
            {})
    want = R.fresh(final)['schema']
    MZ.install(final, evolutions={'va': {'SEQUENCE': ['e1'], 'modules': {
        'e1': {'MUTATIONS': [ML.to_real(['DeleteField', 'Item', 'ref'])]}}}})
    got = {t: d for t, d in O.schema_dump('default', skip=SKIP).items()
           if t.startswith('va_')}
    if got != want:
        add('C15|retire-app|remaining-app-schema-wrong|%s' % driver, replay,
            {'got': str(got)[:300]})
    want_ids = sorted(set(before_ids) - {'vold'})
    if stored_app_ids() != want_ids:
        add('C15|retire-app|stored-signature-apps-wrong|%s' % driver,
            replay, {'got': stored_app_ids()})
    rec = sorted((a, l) for (a, l, _v) in (
        O.bookkeeping_dump('default')['evolutions'] or []) if a == 'va')
    if rec != [('va', 'e1')]:
        add('C15|retire-app|evolution-not-recorded|%s' % driver, replay,
            {'recorded': rec})


def run_legacy_keyed_case(driver, stats, add):
    """An installed app whose label differs from its package and whose
    stored signature entry is still keyed by the legacy (module) label, as
    older releases wrote it: a purge must not take it for a stale app."""
    from django_evolution.models import Version
    stats['cases'] += 1
    va = A('va', [M('Item', [F('name', 'Char', max_length=20)])])
    va['package'] = 'vapkg'
    vb = A('vb', [M('Other', [F('x', 'Int', null=True)])])
    project = P(va, vb)
    evos = {'va': {'SEQUENCE': [], 'modules': {}},
            'vb': {'SEQUENCE': [], 'modules': {}}}
    MZ.install(project, evolutions=evos)
    B.fresh_db('default')
    B.reset_globals()
    r = D.d2_all()
    replay = {'scenario': 'legacy-keyed-app', 'driver': driver}
    if not r.ok:
        add('C15|legacy-keyed-app|setup-fails|%s' % r.exc_type, replay,
            {'error': str(r.exc)[:200]})
        return
    from vf import rows as RW
    RW.populate(project, 'R2', 'default')
    sig = D.stored_signature().clone()
    app = sig.get_app_sig('va')
    sig.remove_app_sig('va')
    app.app_id = 'vapkg'
    app.legacy_app_label = 'vapkg'
    sig.add_app_sig(app)
    Version(signature=sig).save()
    before_tables = set(O.list_tables('default'))
    image = O.raw_table_image('va_item')
    B.reset_globals()
    # (moving the entry to the new label takes a RenameAppLabel evolution,
    # which this project does not ship: only the purge is requested)
    from django_evolution.evolve import Evolver
    res = D.RunResult()
    try:
        ev = Evolver()
        ev.queue_purge_old_apps()
        if driver == 'D2' or ev.get_evolution_required():
            ev.evolve()
        res.ok = True
    except Exception as e:
        res.exc, res.exc_type = e, type(e).__name__
        D._abort_transactions('default')
    stats['runs'] += 1
    if not res.ok:
        add('C15|legacy-keyed-app|run-fails|%s|%s' % (res.exc_type, driver),
            replay, {'error': str(res.exc)[:300]})
        return
    dropped = before_tables - set(O.list_tables('default'))
    if dropped:
        add('C15|legacy-keyed-app|installed-app-purged|%s' % driver, replay,
            {'dropped': sorted(dropped)})
    elif O.raw_table_image('va_item') != image:
        add('C15|legacy-keyed-app|other-table-modified|%s' % driver, replay,
            {})
    stored = D.stored_signature()
    if stored.get_app_sig('vapkg') is None:
        add('C15|legacy-keyed-app|stored-signature-apps-wrong|%s' % driver,
            replay, {'got': stored_app_ids()})


def judge_delete(node, step, tr):
    out = []
    for fp, detail in c01.judge(node, step, tr):
        out.append((fp.replace('C01|', 'C15|delete|', 1), detail))
    return out


def work(task):
    kind = task[0]
    stats = {'cases': 0, 'runs': 0, 'samples': [], 'states': 0,
             'transitions': 0}
    viol = {}

    def add(fp, replay, detail):
        size = len(S.canon(replay))
        ent = viol.get(fp)
        if ent is None:
            viol[fp] = {'count': 1, 'exemplar': replay, 'detail': detail,
                        'size': size}
        else:
            ent['count'] += 1
            if size < ent['size']:
                ent.update(exemplar=replay, detail=detail, size=size)
    if kind == 'emptied':
        for purge in (True, False):
            for driver in ('D3', 'D2'):
                for second in (True, False):
                    run_emptied_case(purge, driver, stats, add, second)
        stats['samples'].append({'scenario': 'emptied-app'})
    elif kind == 'legacy-keyed-app':
        for driver in ('D3', 'D2'):
            run_legacy_keyed_case(driver, stats, add)
        stats['samples'].append({'scenario': 'legacy-keyed-app'})
    elif kind == 'retire-app':
        for driver in ('D3', 'D2'):
            run_retire_case(driver, stats, add)
        stats['samples'].append({'scenario': 'retire-app'})
    elif kind == 'migrations-app':
        for purge in (True, False):
            for driver in ('D3', 'D2'):
                run_migrations_app_case(purge, driver, stats, add)
        stats['samples'].append({'scenario': 'migrations-app'})
    elif kind == 'purge':
        _k, pname, project, removed = task
        for purge in (True, False):
            for driver in ('D3', 'D2'):
                run_case(pname, project, removed, purge, driver, stats, add)
        stats['samples'].append({'project': pname, 'removed': removed})
    else:
        _k, pname, project, depth = task
        st, v = EA.bfs(project, depth, judge_delete, level='full',
                       kinds=('DeleteModel', 'DeleteApplication'),
                       row_profile='R2')
        stats['states'] = st['states']
        stats['transitions'] = st['transitions']
        stats['cases'] += st['transitions']
        stats['runs'] += st['transitions']
        stats['samples'] += st['samples'][:1]
        for fp, ent in v.items():
            ent['exemplar'] = dict(ent['exemplar'], kind='delete')
        viol.update(v)
    return stats, viol


def run(tier, seed, confirm=True):
    from vf import bootstrap
    bootstrap.setup()
    t0 = time.time()
    tasks = []
    for pname, project in projects():
        for removed in closed_subsets(project):
            tasks.append(('purge', pname, project, removed))
        tasks.append(('delete', pname, project,
                      2 if tier == 'quick' else 3))
    tasks.append(('emptied',))
    tasks.append(('migrations-app',))
    tasks.append(('retire-app',))
    tasks.append(('legacy-keyed-app',))
    total = {}
    coll = findings.Collector(PROP)
    for stats, viol in explore.run_tasks('vf.checks.c15.work', tasks,
                                         seed=seed):
        common.merge_stats(total, stats)
        coll.merge(viol)
    coverage = {
        'evaluations': total['cases'],
        'distinct_nontrivial': total['runs'],
        'rule': 'two generated projects (3 and 4 apps; cross-app FK/M2M, '
                'self M2M, custom db_table names that are prefixes of each '
                'other) x every dependency-closed non-empty subset of apps '
                'removed from the installed set x {--purge, no purge} x '
                '{evolve command, Evolver.queue_purge_old_apps}; plus every '
                'DeleteModel/DeleteApplication sequence up to depth %d '
                'through the bare AppMutator with rows present; all cases '
                'distinct by construction' % (2 if tier == 'quick' else 3),
        'samples': total['samples'][:4],
        'exhaustive': True,
        'purge_configurations': sum(1 for t in tasks if t[0] == 'purge') * 4,
        'delete_transitions': total['transitions'],
    }
    print('C15 %s: %d purge configurations, %d delete transitions' % (
        tier, coverage['purge_configurations'], total['transitions']))
    return common.finish(PROP, tier, seed, 'exploration', coverage, coll,
                         t0, confirm=confirm, assumptions=[
        'apps that other installed apps still refer to cannot be removed '
        'from INSTALLED_APPS (Django itself would not start), so only '
        'dependency-closed subsets are removed'])


def replay(path):
    doc = common.load_replay(path)
    r = doc['replay']
    found = {}

    def add(fp, replay, detail):
        found[fp] = detail
    stats = {'cases': 0, 'runs': 0}
    if r.get('scenario') == 'emptied-app':
        run_emptied_case(r['purge'], r['driver'], stats, add,
                         r.get('second', True))
    elif r.get('scenario') == 'legacy-keyed-app':
        run_legacy_keyed_case(r['driver'], stats, add)
    elif r.get('scenario') == 'retire-app':
        run_retire_case(r['driver'], stats, add)
    elif r.get('scenario') == 'migrations-app':
        run_migrations_app_case(r['purge'], r['driver'], stats, add)
    elif r.get('kind') == 'delete' or 'steps' in r:
        node = EA.start_node(r['start'], r.get('rows'))
        for step in r['steps']:
            tr = EA.execute(node, step)
            for fp, d in judge_delete(node, step, tr):
                found[fp] = d
            if tr.child is None:
                break
            node = tr.child
    else:
        project = dict(projects())[r['project']]
        run_case(r['project'], project, r['removed'], r['purge'],
                 r['driver'], stats, add)
    for fp, d in found.items():
        print('  %s %s' % (fp, str(d)[:400]))
    if doc['fingerprint'] in found:
        print('REPRODUCED %s' % doc['fingerprint'])
        return 1
    print('NOT-REPRODUCED')
    return 0
