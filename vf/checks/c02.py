"""C02 - evolutions preserve existing row data.

The C01 BFS with populated start states (row profiles R2, R6) and a
reference row semantics evaluated after every transition."""
import time

from vf import spec as S, starts, engine_a as EA, findings, explore
from vf import rows as RW
from vf.checks import common

PROP = 'C02'


def judge(node, step, tr):
    out = []
    kind, detail, shape = EA.step_shape(
        step, tr.res.statements if tr.res else [])
    trig = '%s|%s%s' % (shape, kind, '.' + detail if detail else '')
    if tr.status == 'sql-error':
        msg = str(tr.res.exc)
        if 'UNIQUE constraint failed' in msg and \
                ('unique' in detail or kind == 'ChangeMeta'):
            return []      # the data genuinely conflicts with the new rule
        if 'UNIQUE constraint failed' in msg and kind == 'ChangeField' and \
                'null' in detail:
            f = S.get_field(S.get_model(tr.spec_after, step[0], step[1][1])
                            or {'fields': []}, step[1][2])
            if f is not None and f['attrs'].get('unique'):
                return []  # one initial value for every NULL of a unique
                           # column: the data cannot satisfy the new rule
        if 'CHECK constraint failed' in msg and kind == 'ChangeMeta':
            return []      # likewise: existing rows violate the new CHECK
        if 'constraint failed' not in msg:
            return []      # not data dependent: C01's domain
        import re
        msg = re.sub(r'[A-Za-z_]+\.[A-Za-z_0-9]+', '_', msg)[:60]
        out.append(('C02|sql-error-with-rows|%s|%s' % (msg, trig),
                    {'error': str(tr.res.exc)[:300]}))
    elif tr.status == 'ok':
        exp = RW.expected_after(tr.pre_rows, node.spec, tr.spec_after, step)
        seen = set()
        for clause, where in RW.compare_rows(tr.pre_rows, tr.post_rows, exp):
            fp = 'C02|%s|%s' % (clause, trig)
            if fp not in seen:
                seen.add(fp)
                out.append((fp, {'where': where}))
    return out


def work(task):
    name, project, depth, level, profile = task
    if isinstance(project, list):
        # several projects one after the other in ONE process (the same
        # app/model/table/column names with different definitions): nothing
        # a run leaves behind in the process may leak into the next
        total, viol = None, {}
        for p in project:
            st, v = EA.bfs(p, depth, judge, level=level,
                           row_profile=profile, check_rows=True)
            if total is None:
                total = st
            else:
                common.merge_stats(total, st)
            for fp, ent in v.items():
                viol.setdefault(fp + '|after-a-same-named-project', ent)
        total['starts'] = len(project)
        return name, total, viol
    stats, violations = EA.bfs(project, depth, judge, level=level,
                               row_profile=profile, check_rows=True)
    stats['starts'] = 1
    return name, stats, violations


def same_named_projects():
    """Author/Book twice: the referenced primary key `code` is an integer
    in the first project and a string in the second."""
    from vf.spec import F, M, A, P
    out = []
    for pk in (F('code', 'Int', primary_key=True),
               F('code', 'Char', primary_key=True, max_length=10)):
        out.append(P(A('va', [
            M('Author', [pk, F('name', 'Char', max_length=20)]),
            M('Book', [F('title', 'Char', max_length=20),
                       F('pages', 'Int', null=True),
                       F('author', 'FK', to='va.Author', null=True)])])))
    return out


def tasks_for(tier):
    tasks = []
    all_starts = starts.s1() + starts.s2() + starts.s3()
    if tier == 'quick':
        for name, p in all_starts:
            tasks.append((name + '-R2', p, 1, 'full', 'R2'))
        for name, p in starts.s1(metas=('none',)) + starts.s2():
            tasks.append((name + '-R6', p, 1, 'full', 'R6'))
        for name, p in starts.s1(fieldsets=('V1',), metas=('none',)):
            tasks.append((name + '-R2-d2', p, 2, 'lite', 'R2'))
        tasks.append(('same-named-projects', same_named_projects(), 1,
                      'lite', 'R2'))
        # two steps over the full menus from the narrow start (a column
        # move or rename followed by a rebuild of the same table)
        from vf.checks import c03
        tasks.append(('narrow-R2-d2-full', c03.narrow_start(), 2, 'full',
                      'R2'))
    else:
        tasks.append(('same-named-projects', same_named_projects(), 2,
                      'lite', 'R2'))
        for name, p in all_starts:
            tasks.append((name + '-R2', p, 2, 'full', 'R2'))
            tasks.append((name + '-R6', p, 1, 'full', 'R6'))
        for name, p in starts.s1(fieldsets=('V1',), metas=('none', 'tbl')):
            tasks.append((name + '-R6-d3', p, 3, 'lite', 'R6'))
    return tasks


def run(tier, seed, confirm=True):
    t0 = time.time()
    tasks = tasks_for(tier)
    total = {}
    coll = findings.Collector(PROP)
    for name, stats, violations in explore.run_tasks(
            'vf.checks.c02.work', tasks, seed=seed, progress=20):
        common.merge_stats(total, stats)
        coll.merge(violations)
    coverage = {
        'states': total['states'],
        'transitions': total['transitions'],
        'traces_validated_against_impl': total['validated'],
        'samples': total['samples'][:3],
        'exhaustive': True,
        'start_states': total['starts'],
        'row_profiles': {'R2': '2 rows per table', 'R6': '6 rows per table '
                         '(NULL, empty string, quotes, percent, unicode, '
                         'negative and boundary numbers, FK and M2M links)'},
        'rejected_by_gate': total['gate'],
        'refused_by_implementation': total['refused'],
        'transitions_by_mutation': total['by_kind'],
        'transition_statuses': total['statuses'],
        'rebuild_transitions': total['rebuild_transitions'],
        'bounds': {'tier': tier,
                   'tasks': [(t[0], 'depth=%d' % t[2], t[3]) for t in tasks]},
        'note': 'row contents are fixed profiles, not an enumerated space',
    }
    print('C02 %s: %d starts, %d states, %d transitions (%d rebuilds), '
          'statuses %s' % (tier, total['starts'], total['states'],
                           total['transitions'],
                           total['rebuild_transitions'], total['statuses']))
    return common.finish(PROP, tier, seed, 'model_checking', coverage, coll,
                         t0, confirm=confirm, assumptions=[
        'expected stored form of an initial value is what Django stores '
        'for the field type, not django-evolution normalisation',
        'type changes across storage classes are not in the alphabet',
        'M2M link tables are compared as multisets of link pairs',
    ])


def replay(path):
    doc = common.load_replay(path)
    r = doc['replay']
    node = EA.start_node(r['start'], r.get('rows'))
    fps = []
    for step in r['steps']:
        tr = EA.execute(node, step, check_rows=True)
        found = judge(node, step, tr)
        print('step %s -> %s %s' % (S.canon(step), tr.status,
                                    [f for f, _ in found]))
        for f, d in found:
            print('    %s' % (d,))
        if tr.res is not None:
            for sql, params in tr.res.statements:
                print('    SQL: %s %r' % (sql, params))
            if tr.res.exc is not None:
                print('    EXC: %r' % (tr.res.exc,))
        fps += [f for f, _ in found]
        if tr.child is None:
            break
        node = tr.child
    if doc['fingerprint'] in fps:
        print('REPRODUCED %s' % doc['fingerprint'])
        return 1
    print('NOT-REPRODUCED %s (got %s)' % (doc['fingerprint'], fps))
    return 0
