"""C09 - execution order respects every evolution/migration dependency.

Part 1 (ordering core): ALL labelled digraphs (no self loops) on <= N nodes
through the real DependencyGraph.  Part 2 (pipeline): generated projects with
declared dependencies through the real Evolver (see c09_pipeline)."""
import itertools
import time

from vf import findings, explore
from vf.checks import common

PROP = 'C09'


def kahn_acyclic(n, edges):
    """Independent check: is the 'i depends on j' relation acyclic?"""
    indeg = [0] * n
    out = [[] for _ in range(n)]
    for i, j in edges:
        indeg[i] += 1
        out[j].append(i)
    todo = [i for i in range(n) if indeg[i] == 0]
    seen = 0
    while todo:
        x = todo.pop()
        seen += 1
        for y in out[x]:
            indeg[y] -= 1
            if indeg[y] == 0:
                todo.append(y)
    return seen == n


def check_graph(n, edges):
    """Returns None or (fingerprint, detail)."""
    from django_evolution.utils.graph import DependencyGraph
    g = DependencyGraph()
    for i in range(n):
        g.add_node('n%d' % i)
    for i, j in edges:
        g.add_dependency('n%d' % i, 'n%d' % j)
    g.finalize()
    try:
        order = [node.key for node in g.get_ordered()]
        exc = None
    except Exception as e:
        order, exc = None, e
    acyclic = kahn_acyclic(n, edges)
    if acyclic:
        if exc is not None:
            return ('C09|core|acyclic-raises|%s' % type(exc).__name__,
                    {'error': str(exc)})
        if sorted(order) != sorted('n%d' % i for i in range(n)):
            return ('C09|core|acyclic-not-a-permutation', {'order': order})
        pos = {k: p for p, k in enumerate(order)}
        for i, j in edges:
            if pos['n%d' % j] > pos['n%d' % i]:
                return ('C09|core|acyclic-edge-violated', {'order': order})
        return None
    if exc is not None:
        return None     # reported as an error: fine
    return ('C09|core|cycle-not-reported', {'order': order})


def work(task):
    n, lo, hi = task
    pairs = [(i, j) for i in range(n) for j in range(n) if i != j]
    stats = {'graphs': 0, 'acyclic': 0, 'cyclic': 0, 'nontrivial': 0,
             'samples': []}
    viol = {}
    for mask in range(lo, hi):
        edges = [pairs[b] for b in range(len(pairs)) if mask >> b & 1]
        stats['graphs'] += 1
        if edges:
            stats['nontrivial'] += 1
        if kahn_acyclic(n, edges):
            stats['acyclic'] += 1
        else:
            stats['cyclic'] += 1
        r = check_graph(n, edges)
        if r:
            fp, detail = r
            replay = {'n': n, 'edges': edges}
            ent = viol.get(fp)
            size = len(edges) * 10 + n
            if ent is None:
                viol[fp] = {'count': 1, 'exemplar': replay,
                            'detail': detail, 'size': size}
            else:
                ent['count'] += 1
                if size < ent['size']:
                    ent.update(exemplar=replay, detail=detail, size=size)
        elif len(stats['samples']) < 1 and len(edges) >= 3:
            stats['samples'].append({'n': n, 'edges': edges})
    return stats, viol


def core_tasks(tier):
    maxn = 4 if tier == 'quick' else 5
    tasks = []
    for n in range(1, maxn + 1):
        total = 1 << (n * (n - 1))
        chunk = max(1, total // 64) if total > 4096 else total
        for lo in range(0, total, chunk):
            tasks.append((n, lo, min(total, lo + chunk)))
    return tasks, maxn


def run(tier, seed, confirm=True):
    t0 = time.time()
    tasks, maxn = core_tasks(tier)
    total = {}
    coll = findings.Collector(PROP)
    for stats, viol in explore.run_tasks('vf.checks.c09.work', tasks,
                                         seed=seed):
        common.merge_stats(total, stats)
        coll.merge(viol)
    pipe = {}
    try:
        from vf.checks import c09_pipeline
    except ImportError:
        c09_pipeline = None
    if c09_pipeline is not None:
        pipe = c09_pipeline.run_part(tier, seed, coll)
    coverage = {
        'evaluations': total['graphs'] + pipe.get('configs', 0),
        'distinct_nontrivial': total['nontrivial'] +
        pipe.get('nontrivial', 0),
        'rule': 'part 1: every labelled digraph without self loops on 1..%d '
                'nodes (insertion order = node index) through the real '
                'DependencyGraph; non-trivial = at least one edge (all '
                'enumerated graphs are distinct by construction). part 2: '
                'see pipeline' % maxn,
        'samples': total['samples'][:2] + pipe.get('samples', [])[:2],
        'exhaustive': True,
        'core_graphs': total['graphs'],
        'core_acyclic': total['acyclic'],
        'core_cyclic': total['cyclic'],
        'max_nodes': maxn,
        'pipeline': pipe,
    }
    print('C09 %s: %d digraphs on <=%d nodes (%d acyclic, %d cyclic); '
          'pipeline configs: %s' % (tier, total['graphs'], maxn,
                                    total['acyclic'], total['cyclic'],
                                    pipe.get('configs')))
    return common.finish(PROP, tier, seed, 'model_checking', coverage, coll,
                         t0, confirm=confirm, assumptions=[
        'acyclicity and topological validity are decided by an independent '
        'Kahn implementation'])


def replay(path):
    doc = common.load_replay(path)
    r = doc['replay']
    if 'edges' in r:
        res = check_graph(r['n'], [tuple(e) for e in r['edges']])
        print('graph n=%d edges=%s -> %s' % (r['n'], r['edges'], res))
        if res and res[0] == doc['fingerprint']:
            print('REPRODUCED %s' % doc['fingerprint'])
            return 1
        print('NOT-REPRODUCED')
        return 0
    from vf.checks import c09_pipeline
    return c09_pipeline.replay(doc)
