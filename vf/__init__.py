"""Verification framework for django-evolution (explicit-state model checking
of the real code).  See /verif/DESIGN.md."""
