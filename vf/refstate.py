"""'Created from scratch' side of the oracles: for a reference spec, install
the real Django models, let Django's own schema editor create them in the
`ref` database, and cache schema dump, signature and database image."""
from vf import spec as S, materialize as MZ, observe as O, bootstrap as B

_cache = {}
MAX_CACHE = 4000


def fresh(project, want_image=True):
    key = S.canon(project)
    ent = _cache.get(key)
    if ent is not None:
        return ent
    from django_evolution.signature import ProjectSignature, AppSignature
    mods = MZ.install(project)
    conn = B.fresh_db('ref')
    with conn.schema_editor() as ed:
        for app in project['apps']:
            for model in MZ.model_classes(app['label']):
                ed.create_model(model)
    schema = O.schema_dump('ref')
    sig = ProjectSignature()
    for app in project['apps']:
        sig.add_app_sig(AppSignature.from_app(mods[app['label']], 'default'))
    ent = {
        'schema': schema,
        'schema_named': O.schema_dump('ref', names=True),
        'sig': sig.serialize(),
        'image': B.snapshot('ref'),
    }
    if len(_cache) > MAX_CACHE:
        _cache.clear()
    _cache[key] = ent
    return ent


def load_sig(serialized):
    import copy
    from django_evolution.signature import ProjectSignature
    return ProjectSignature.deserialize(copy.deepcopy(serialized))


def sig_equal(sig_a, sig_b, ignore_upgrade_method=False):
    """Empty Diff in both directions (apps included)."""
    from django_evolution.diff import Diff
    if ignore_upgrade_method:
        # D1-level harness apps have no evolutions module (upgrade method
        # None) while RenameAppLabel creates the app entry with
        # upgrade_method='evolutions': not a schema difference.
        sig_a, sig_b = sig_a.clone(), sig_b.clone()
        for s in (sig_a, sig_b):
            for a in s.app_sigs:
                if a.upgrade_method in (None, 'evolutions'):
                    a.upgrade_method = None
    d1 = Diff(sig_a, sig_b)
    d2 = Diff(sig_b, sig_a)
    ok = d1.is_empty(ignore_apps=False) and d2.is_empty(ignore_apps=False)
    return ok, (str(d1), str(d2))
