"""evidence/<id>.json writer (checked against the schema's requirements)."""
import json
import os

VERIF = os.path.dirname(os.path.dirname(os.path.abspath(__file__)))
LEVELS = ('exploration', 'fault_enumeration', 'model_checking', 'proof',
          'translation_validation', 'other')


def validate(doc):
    for k in ('property_id', 'tier', 'seed', 'level', 'coverage', 'wall_s'):
        assert k in doc, k
    assert doc['tier'] in ('quick', 'thorough')
    assert isinstance(doc['seed'], int)
    assert doc['level'] in LEVELS
    cov = doc['coverage']
    if doc['level'] in ('exploration', 'fault_enumeration'):
        assert cov['evaluations'] >= 1
        assert cov['distinct_nontrivial'] >= 2, cov['distinct_nontrivial']
        assert isinstance(cov['rule'], str)
        assert len(cov['samples']) >= 1
    elif doc['level'] == 'model_checking':
        if all(k in cov for k in ('states', 'transitions',
                                  'traces_validated_against_impl',
                                  'samples')):
            assert cov['states'] >= 1 and cov['transitions'] >= 1
            assert cov['traces_validated_against_impl'] >= 0
            assert len(cov['samples']) >= 1
        else:
            assert cov['evaluations'] >= 1
            assert cov['distinct_nontrivial'] >= 2
            assert len(cov.get('samples', [1])) >= 1
    schema_path = '/root/.vp/EVIDENCE.schema.json'
    try:
        import jsonschema
        if os.path.exists(schema_path):
            jsonschema.validate(doc, json.load(open(schema_path)))
    except ImportError:
        pass


def write(prop, tier, seed, level, coverage, wall_s, violations=0,
          assumptions=()):
    doc = {
        'property_id': prop,
        'tier': tier,
        'seed': int(seed),
        'level': level,
        'coverage': coverage,
        'assumptions': list(assumptions),
        'wall_s': round(float(wall_s), 3),
        'violations': int(violations),
    }
    validate(doc)
    path = os.path.join(os.environ.get('VERIF_OUT', VERIF), 'evidence',
                        '%s.json' % prop)
    os.makedirs(os.path.dirname(path), exist_ok=True)
    tmp = path + '.tmp'
    with open(tmp, 'w') as fp:
        json.dump(doc, fp, indent=1, sort_keys=True, default=str)
    os.replace(tmp, path)
    return path
