"""Turn specs into real, installed Django apps/models (no files for models;
evolution modules are injected into sys.modules with __file__ inside a scratch
directory, migrations are written as real files)."""
import atexit
import importlib.machinery
import os
import shutil
import sys
import tempfile
import types

from vf import spec as S

_installed_labels = []
_installed_packages = []
_base_installed = None
_scratch = None
_set = False


def scratch_dir():
    global _scratch
    if _scratch is None:
        root = os.environ.get('VERIF_SCRATCH', '/var/tmp')
        _scratch = tempfile.mkdtemp(prefix='verif-%d-' % os.getpid(),
                                    dir=root)
        atexit.register(shutil.rmtree, _scratch, True)
    return _scratch


def _mod(name, path, is_package):
    mod = types.ModuleType(name)
    mod.__file__ = os.path.join(path, '__init__.py' if is_package
                                else name.split('.')[-1] + '.py')
    mod.__spec__ = importlib.machinery.ModuleSpec(name, None,
                                                  is_package=is_package)
    if is_package:
        mod.__path__ = [path]
        mod.__spec__.submodule_search_locations = [path]
    sys.modules[name] = mod
    return mod


def build_field(fs):
    from django.db import models
    cls = S.field_class(fs['type'])
    if fs.get('sub'):
        from vf import fieldlib
        cls = fieldlib.SUB.get(cls, cls)
    attrs = dict(fs['attrs'])
    to = attrs.pop('to', None)
    if fs['type'] in ('FK', 'O2O'):
        return cls(to, on_delete=models.CASCADE, **attrs)
    if fs['type'] == 'M2M':
        return cls(to, **attrs)
    return cls(**attrs)


def build_meta_options(ms):
    from django.db import models
    meta = ms['meta']
    opts = {}
    if meta.get('db_table'):
        opts['db_table'] = meta['db_table']
    if 'managed' in meta:
        opts['managed'] = meta['managed']
    if meta.get('unique_together'):
        opts['unique_together'] = [tuple(e) for e in meta['unique_together']]
    if meta.get('index_together'):
        opts['index_together'] = [tuple(e) for e in meta['index_together']]
    if meta.get('indexes'):
        idxs = []
        for i in meta['indexes']:
            kw = {'fields': list(i['fields'])}
            if i.get('name'):
                kw['name'] = i['name']
            if i.get('condition'):
                kw['condition'] = S.make_q(i['condition'])
            idxs.append(models.Index(**kw))
        opts['indexes'] = idxs
    if meta.get('constraints'):
        cons = []
        for c in meta['constraints']:
            if c['type'] == 'check':
                cons.append(models.CheckConstraint(check=S.make_q(c['check']),
                                                   name=c['name']))
            else:
                kw = {'fields': list(c['fields']), 'name': c['name']}
                if c.get('condition'):
                    kw['condition'] = S.make_q(c['condition'])
                cons.append(models.UniqueConstraint(**kw))
        opts['constraints'] = cons
    return opts


def uninstall():
    """Remove every app installed by install()."""
    global _installed_labels, _set
    from django.apps import apps
    if _set:
        apps.unset_installed_apps()
        _set = False
    for label in _installed_labels:
        apps.all_models.pop(label, None)
    for pkgname in _installed_packages:
        for name in list(sys.modules):
            if name == pkgname or name.startswith(pkgname + '.'):
                del sys.modules[name]
    del _installed_packages[:]
    _installed_labels = []
    apps.clear_cache()
    from vf import bootstrap
    bootstrap.reset_globals()


def install(project, evolutions=None, migrations=None, extra_installed=()):
    """Install the apps of `project`.

    evolutions: {label: {'SEQUENCE': [labels], 'modules': {label: {
                    'MUTATIONS': [...], 'AFTER_EVOLUTIONS': ..., ...}},
                 'top': {attr: value}}}  (mutations are real objects)
    migrations: {label: [(name, source_text), ...]}  real files on disk.

    Returns {label: models_module}.
    """
    global _installed_labels, _set
    import warnings
    from django.apps import apps, AppConfig
    from django.conf import settings
    from django.db import models
    uninstall()
    root = scratch_dir()
    cfgs = []
    result = {}
    warnings.simplefilter('ignore')
    for app in project['apps']:
        label = app['label']
        # the package (module) name may differ from the app label
        pkgname = app.get('package') or label
        _installed_packages.append(pkgname)
        path = os.path.join(root, pkgname)
        os.makedirs(path, exist_ok=True)
        pkg = _mod(pkgname, path, True)
        mm = _mod(pkgname + '.models', path, False)
        pkg.models = mm
        for ms in app['models']:
            attrs = {'__module__': pkgname + '.models'}
            for fs in ms['fields']:
                attrs[fs['name']] = build_field(fs)
            mopts = build_meta_options(ms)
            mopts['app_label'] = label
            attrs['Meta'] = type('Meta', (), mopts)
            cls = type(str(ms['name']), (models.Model,), attrs)
            setattr(mm, ms['name'], cls)
        evo = (evolutions or {}).get(label)
        epath = os.path.join(path, 'evolutions')
        if evo is None and os.path.isdir(epath):
            # a stale directory would be importable as a namespace package
            shutil.rmtree(epath)
        if evo is not None:
            os.makedirs(epath, exist_ok=True)
            em = _mod(pkgname + '.evolutions', epath, True)
            em.SEQUENCE = list(evo['SEQUENCE'])
            for k, v in (evo.get('top') or {}).items():
                setattr(em, k, v)
            pkg.evolutions = em
            for fname, text in (evo.get('sql_files') or {}).items():
                with open(os.path.join(epath, fname), 'w') as fp:
                    fp.write(text)
            for stale in os.listdir(epath):
                if stale.endswith('.sql') and \
                        stale not in (evo.get('sql_files') or {}):
                    os.remove(os.path.join(epath, stale))
            for elabel, body in evo['modules'].items():
                sm = _mod('%s.evolutions.%s' % (pkgname, elabel), epath,
                          False)
                for k, v in body.items():
                    setattr(sm, k, v)
                setattr(em, elabel, sm)
        migs = (migrations or {}).get(label)
        mpath = os.path.join(path, 'migrations')
        if os.path.isdir(mpath):
            shutil.rmtree(mpath)
        if migs is not None:
            os.makedirs(mpath)
            open(os.path.join(mpath, '__init__.py'), 'w').close()
            for name, text in migs:
                with open(os.path.join(mpath, name + '.py'), 'w') as fp:
                    fp.write(text)
            # imported for real through the (synthetic) parent package's
            # __path__, so that Django's loader can list and reload it
            for name in list(sys.modules):
                if name.startswith(pkgname + '.migrations'):
                    del sys.modules[name]
            importlib.invalidate_caches()
            sys.dont_write_bytecode = True
            importlib.import_module(pkgname + '.migrations')
        cfg = AppConfig(pkgname, pkg)
        cfg.label = label
        cfgs.append(cfg)
        _installed_labels.append(label)
        result[label] = mm
    base = list(settings.INSTALLED_APPS) + list(extra_installed)
    apps.set_installed_apps(base + cfgs)
    _set = True
    for cfg in apps.get_app_configs():
        if cfg.label in result:
            assert cfg.models_module is result[cfg.label], cfg.label
    return result


def model_classes(label):
    from django.apps import apps
    return list(apps.get_app_config(label).get_models())
