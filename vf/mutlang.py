"""JSON-able mutation language <-> django_evolution.mutations objects, and the
reference semantics (documented effect of each mutation on a project spec).

mutation := ['AddField', model, name, ftype, attrs, initial]
          | ['DeleteField', model, name]
          | ['RenameField', model, old, new, {'db_column':?, 'db_table':?}]
          | ['ChangeField', model, name, attrs, initial, ftype|None]
          | ['ChangeMeta', model, prop, value]
          | ['RenameModel', old, new, db_table]
          | ['DeleteModel', model]
          | ['DeleteApplication']
          | ['RenameAppLabel', old, new]
          | ['SQLBarrier', tag]
A step is (app_label, mutation).
"""
from vf import spec as S


class Disabled(Exception):
    """The mutation is not enabled in this spec (reference-invalid).

    `invalid` names the reason when it is one of the invalidities property
    C12 lists (missing app/model/field, existing field, primary key
    deleted, no initial value); it is None for the harness's own
    restrictions (names in use by Meta, duplicate tables, ...)."""

    def __init__(self, msg='', invalid=None):
        Exception.__init__(self, msg)
        self.invalid = invalid


# --------------------------------------------------------------- to real

def _initial(v):
    if isinstance(v, dict) and v.get('callable') is not None:
        lit = v['callable']
        def cb():
            return lit
        return cb
    return v


def meta_value_to_real(prop, value):
    from django.db import models
    if prop in ('unique_together', 'index_together'):
        return [tuple(e) for e in value]
    if prop == 'indexes':
        out = []
        for i in value:
            d = {'fields': list(i['fields'])}
            if i.get('name'):
                d['name'] = i['name']
            if i.get('condition'):
                d['condition'] = S.make_q(i['condition'])
            out.append(d)
        return out
    if prop == 'constraints':
        out = []
        for c in value:
            if c['type'] == 'check':
                out.append({'type': models.CheckConstraint, 'name': c['name'],
                            'check': S.make_q(c['check'])})
            else:
                d = {'type': models.UniqueConstraint, 'name': c['name'],
                     'fields': tuple(c['fields'])}
                if c.get('condition'):
                    d['condition'] = S.make_q(c['condition'])
                out.append(d)
        return out
    return value


def to_real(mj):
    from django_evolution import mutations as M
    kind = mj[0]
    if kind == 'AddField':
        _, model, name, ftype, attrs, initial = mj
        kw = dict(attrs)
        to = kw.pop('to', None)
        if to:
            kw['related_model'] = to
        return M.AddField(model, name, S.field_class(ftype),
                          initial=_initial(initial), **kw)
    if kind == 'DeleteField':
        return M.DeleteField(mj[1], mj[2])
    if kind == 'RenameField':
        return M.RenameField(mj[1], mj[2], mj[3], **(mj[4] or {}))
    if kind == 'ChangeField':
        _, model, name, attrs, initial, ftype = mj
        kw = dict(attrs)
        to = kw.pop('to', None)
        if to:
            kw['related_model'] = to
        if ftype:
            kw['field_type'] = S.field_class(ftype)
        return M.ChangeField(model, name, initial=_initial(initial), **kw)
    if kind == 'ChangeMeta':
        return M.ChangeMeta(mj[1], mj[2], meta_value_to_real(mj[2], mj[3]))
    if kind == 'RenameModel':
        return M.RenameModel(mj[1], mj[2], db_table=mj[3])
    if kind == 'DeleteModel':
        return M.DeleteModel(mj[1])
    if kind == 'DeleteApplication':
        return M.DeleteApplication()
    if kind == 'RenameAppLabel':
        return M.RenameAppLabel(mj[1], mj[2], legacy_app_label=mj[2])
    if kind == 'SQLBarrier':
        def update_func(simulation):
            pass
        return M.SQLMutation(mj[1], ['SELECT 1;'], update_func)
    if kind == 'SQLRaw':
        # raw SQL without update_func: cannot be simulated
        return M.SQLMutation(mj[1], list(mj[2]))
    raise ValueError(kind)


# ------------------------------------------------------- reference semantics

def apply(project, label, mj):
    """Return the new project spec after applying mutation `mj` of app
    `label` (documented effect).  Raises Disabled when the mutation is not
    valid for the spec."""
    p = S.clone(project)
    kind = mj[0]
    app = S.get_app(p, label)
    if app is None:
        raise Disabled('no app', 'missing-app')
    if kind == 'AddField':
        _, model, name, ftype, attrs, initial = mj
        m = S.get_model(p, label, model)
        if m is None:
            raise Disabled('no model', 'missing-model')
        if S.get_field(m, name) is not None:
            raise Disabled('field exists', 'existing-field')
        if ftype != 'M2M' and not attrs.get('null') and initial is None:
            raise Disabled('no initial', 'no-initial')
        m['fields'].append({'name': name, 'type': ftype,
                            'attrs': dict(attrs)})
    elif kind == 'DeleteField':
        m = S.get_model(p, label, mj[1])
        f = m and S.get_field(m, mj[2])
        if m is None:
            raise Disabled('no model', 'missing-model')
        if f is None:
            raise Disabled('no field', 'missing-field')
        if f['attrs'].get('primary_key'):
            raise Disabled('primary key', 'primary-key-deleted')
        refs = S.meta_field_refs(m).get(mj[2], set())
        if refs - {'unique_together'}:
            raise Disabled('referenced by Meta')
        m['fields'].remove(f)
        ut = []
        for e in m['meta'].get('unique_together', []):
            ne = [n for n in e if n != mj[2]]
            if ne:
                ut.append(ne)
        if 'unique_together' in m['meta']:
            if ut:
                m['meta']['unique_together'] = ut
            else:
                del m['meta']['unique_together']
    elif kind == 'RenameField':
        _, model, old, new, opts = mj
        opts = opts or {}
        m = S.get_model(p, label, model)
        f = m and S.get_field(m, old)
        if m is None:
            raise Disabled('no model', 'missing-model')
        if f is None:
            raise Disabled('no field', 'missing-field')
        if S.get_field(m, new) is not None and not (
                new == old and opts.get('db_column')):
            # (the same name with a db_column only moves the field to
            # another column)
            raise Disabled('name in use')
        if S.meta_field_refs(m).get(old):
            raise Disabled('referenced by Meta')
        f['name'] = new
        if f['type'] == 'M2M':
            if opts.get('db_table'):
                f['attrs']['db_table'] = opts['db_table']
            else:
                f['attrs'].pop('db_table', None)
        elif opts.get('db_column'):
            f['attrs']['db_column'] = opts['db_column']
        else:
            f['attrs'].pop('db_column', None)
    elif kind == 'ChangeField':
        _, model, name, attrs, initial, ftype = mj
        m = S.get_model(p, label, model)
        f = m and S.get_field(m, name)
        if m is None:
            raise Disabled('no model', 'missing-model')
        if f is None:
            raise Disabled('no field', 'missing-field')
        if ('null' in attrs and not attrs['null'] and f['type'] != 'M2M'
                and initial is None and f['attrs'].get('null')):
            raise Disabled('no initial', 'no-initial')
        if ('null' in attrs and not attrs['null'] and f['type'] != 'M2M'
                and initial is None):
            raise Disabled('no initial (column already not null)')
        if ftype and ftype != f['type']:
            # a (database-level) type change replaces the attribute set,
            # as Diff.evolution() hints it (restating the current type is
            # no type change)
            f['type'] = ftype
            f['attrs'] = {}
            # (the mutation names Django's own class)
            f.pop('sub', None)
        elif ftype and f.get('sub'):
            raise Disabled('restated type on a project-specific class')
        for k, v in attrs.items():
            if k == 'db_index' and f['type'] in ('FK', 'O2O'):
                # relations are indexed by default: False is the explicit
                # value, True the default
                if v:
                    f['attrs'].pop(k, None)
                else:
                    f['attrs'][k] = False
            elif v is None or v is False:
                f['attrs'].pop(k, None)
            else:
                f['attrs'][k] = v
    elif kind == 'ChangeMeta':
        _, model, prop, value = mj
        m = S.get_model(p, label, model)
        if m is None:
            raise Disabled('no model', 'missing-model')
        if value:
            m['meta'][prop] = S.clone(value)
        else:
            m['meta'].pop(prop, None)
    elif kind == 'RenameModel':
        _, old, new, db_table = mj
        m = S.get_model(p, label, old)
        if m is None:
            raise Disabled('no model', 'missing-model')
        if S.get_model(p, label, new) is not None:
            raise Disabled('name in use')
        for al, om, f in S.relations_to(p, label, old):
            f['attrs']['to'] = '%s.%s' % (label, new)
        m['name'] = new
        if db_table == S.default_table(label, new):
            m['meta'].pop('db_table', None)
        else:
            m['meta']['db_table'] = db_table
    elif kind == 'DeleteModel':
        m = S.get_model(p, label, mj[1])
        if m is None:
            raise Disabled('no model', 'missing-model')
        for al, om, f in S.relations_to(p, label, mj[1]):
            if om is not m:
                raise Disabled('referenced')
        app['models'].remove(m)
    elif kind == 'DeleteApplication':
        for m in app['models']:
            for al, om, f in S.relations_to(p, label, m['name']):
                if al != label:
                    raise Disabled('referenced')
        app['models'] = []
    elif kind == 'RenameAppLabel':
        _, old, new = mj
        if old != label or S.get_app(p, new) is not None:
            raise Disabled()
        for m in app['models']:
            for al, om, f in S.relations_to(p, old, m['name']):
                f['attrs']['to'] = '%s.%s' % (new, m['name'])
            # "won't change any database state": tables keep their names
            m['meta']['db_table'] = S.table_name(old, m)
        app['label'] = new
    elif kind in ('SQLBarrier', 'SQLRaw', 'SQLFile'):
        pass
    else:
        raise ValueError(kind)
    validate(p)
    return p


def validate(p):
    """Project-level validity the reference model insists on (Django itself
    would reject or mis-create anything else)."""
    tables = set()
    names = set()
    for label, m in S.iter_models(p):
        t = S.table_name(label, m)
        if t in tables:
            raise Disabled('duplicate table')
        tables.add(t)
        cols = set()
        fnames = set()
        if S.pk_field(m)['name'] == 'id':
            cols.add('id')
            fnames.add('id')
        for f in m['fields']:
            if f['name'] in fnames:
                raise Disabled('duplicate field')
            fnames.add(f['name'])
            if f['type'] == 'M2M':
                mt = S.m2m_table(label, m, f)
                if mt in tables:
                    raise Disabled('duplicate table')
                tables.add(mt)
                continue
            c = S.column_name(f)
            if c in cols:
                raise Disabled('duplicate column')
            cols.add(c)
        for i in m['meta'].get('indexes', []):
            if i.get('name'):
                if i['name'] in names:
                    raise Disabled('duplicate name')
                names.add(i['name'])
        for c in m['meta'].get('constraints', []):
            if c['name'] in names:
                raise Disabled('duplicate name')
            names.add(c['name'])
        refs = S.meta_field_refs(m)
        for n in refs:
            if n not in fnames:
                raise Disabled('Meta refers to missing field')


def describe(step):
    label, mj = step
    return '%s:%s' % (label, S.canon(mj))
