"""Mutation alphabets: the mutations *enabled* in a reference spec (every
generated sequence is reference-valid by construction)."""
from vf import spec as S
from vf import mutlang as ML

FRESH_FIELD_NAMES = ('n1', 'n2')

INITIALS = {
    'Char': ["x", "it's", "100%"],
    'Text': ["t"],
    'Int': [7, -1],
    'BigInt': [9],
    'PosInt': [3],
    'Bool': [True],
    'Decimal': [1],
    'DateTime': ['2020-01-02 03:04:05'],
}

SCALAR = ('Char', 'Text', 'Int', 'BigInt', 'PosInt', 'Bool', 'Decimal',
          'DateTime')
STORAGE_CLASS = {
    'Char': ['Text'],
    'Text': [],
    'Int': ['BigInt'],
    'BigInt': ['Int'],
    'PosInt': [],
}


def add_menu(level, targets):
    """(ftype, attrs, initial) entries for AddField."""
    if level == 'tiny':
        return [('Char', {'max_length': 20, 'null': True}, None)]
    menu = [
        ('Char', {'max_length': 20}, "it's"),
        ('Int', {'null': True}, None),
        ('Int', {'db_index': True}, 7),
    ]
    if level != 'lite':
        menu += [
            ('Char', {'max_length': 20, 'null': True, 'unique': True}, None),
            ('Bool', {}, True),
            ('Int', {'db_column': 'custom_col'}, -1),
            ('Char', {'max_length': 10}, {'callable': "'lit'"}),
        ]
        for t in targets:
            menu.append(('FK', {'to': t, 'null': True}, None))
        if targets:
            # relations with a declared initial value (existing rows must
            # point at row 1 of the target afterwards)
            menu.append(('FK', {'to': targets[0]}, 1))
            menu.append(('FK', {'to': targets[0], 'null': True}, 1))
        if targets:
            menu.append(('M2M', {'to': targets[0]}, None))
    return menu


def meta_menu(model, level):
    """ChangeMeta (prop, value) candidates valid for the model's fields."""
    names = [f['name'] for f in model['fields']
             if f['type'] in SCALAR or f['type'] in ('FK',)]
    ints = [f['name'] for f in model['fields'] if f['type'] in ('Int',
                                                                'PosInt',
                                                                'BigInt')]
    out = []
    cur = model['meta']
    if len(names) >= 2:
        a, b = names[0], names[1]
        cands = {
            'unique_together': [[[a, b]], [[b, a]]],
            'index_together': [[[a, b]]],
            'indexes': [[{'fields': [a]}],
                        [{'fields': [a, '-' + b], 'name': 'idx_ab'}]],
        }
        if len(names) >= 3 and level != 'lite':
            c = names[2]
            cands['unique_together'].append([[a, b], [b, c]])
            cands['index_together'].append([[a, b], [b, c]])
            cands['indexes'].append([{'fields': [a]}, {'fields': [c],
                                                        'name': 'idx_c'}])
    elif len(names) == 1:
        a = names[0]
        cands = {'indexes': [[{'fields': [a]}]],
                 'unique_together': [], 'index_together': []}
    else:
        cands = {'indexes': [], 'unique_together': [], 'index_together': []}
    cands['constraints'] = []
    if names:
        cands['constraints'].append(
            [{'type': 'unique', 'name': 'uc_a', 'fields': [names[0]]}])
    if ints:
        cands['constraints'].append(
            [{'type': 'check', 'name': 'ck_i', 'check': [[ints[0] + '__gte',
                                                           0]]}])
        if level != 'lite':
            cands['indexes'].append(
                [{'fields': [names[0]], 'name': 'idx_p',
                  'condition': [[ints[0] + '__gt', 0]]}])
            cands['constraints'].append(
                [{'type': 'unique', 'name': 'uc_p', 'fields': [names[0]],
                  'condition': [[ints[0] + '__gt', 0]]}])
    for prop in ('unique_together', 'index_together', 'indexes',
                 'constraints'):
        have = cur.get(prop) or []
        vals = list(cands[prop])
        if have:
            vals.append([])
        # the definition of a NAMED entry edited in place (same name)
        for i, ent in enumerate(have):
            if not isinstance(ent, dict) or not ent.get('name'):
                continue
            new = S.clone(ent)
            if ent.get('type') == 'check':
                lookup, bound = ent['check'][0]
                new['check'] = [[lookup, bound - 5]]
            elif ent.get('condition'):
                lookup, bound = ent['condition'][0]
                new['condition'] = [[lookup, bound + 1]]
            elif len(names) >= 2:
                flds = [x.lstrip('-') for x in ent['fields']]
                other = [n for n in names if n not in flds]
                if not other:
                    continue
                new['fields'] = list(ent['fields']) + [other[0]]
            else:
                continue
            vals.append(have[:i] + [new] + have[i + 1:])
        for v in vals:
            if v != have:
                out.append((prop, v))
    return out


def enabled(project, level='full', kinds=None, fresh_names=FRESH_FIELD_NAMES,
            reuse_names=(), rename_models=('Zed',), rename_pk=False,
            add_types=None):
    """Yield (label, mutation) for every alphabet mutation enabled in
    `project`."""
    out = []
    def want(k):
        return kinds is None or k in kinds
    all_models = ['%s.%s' % (l, m['name']) for l, m in S.iter_models(project)]
    for app in project['apps']:
        label = app['label']
        for m in app['models']:
            mname = m['name']
            refs = S.meta_field_refs(m)
            have = set(f['name'] for f in m['fields'])
            if want('AddField'):
                targets = [t for t in all_models]
                if level in ('lite', 'tiny'):
                    targets = []
                else:
                    targets = targets[:2]
                # one re-used name (freed earlier on the path by a
                # DeleteField or RenameField) and one fresh name at a time
                cands = []
                for pool in ([n for n in reuse_names
                              if n not in fresh_names], list(fresh_names)):
                    for name in pool:
                        if name not in have:
                            cands.append(name)
                            break
                for name in cands:
                    for ftype, attrs, initial in add_menu(level, targets):
                        if add_types is not None and ftype not in add_types:
                            continue
                        out.append((label, ['AddField', mname, name, ftype,
                                            dict(attrs), initial]))
            for f in m['fields']:
                fname = f['name']
                if f['attrs'].get('primary_key'):
                    # an explicit primary key may be renamed (relations to
                    # the model must follow), nothing else
                    if want('RenameField') and rename_pk and \
                            not refs.get(fname):
                        for new in fresh_names:
                            if new not in have:
                                out.append((label, ['RenameField', mname,
                                                    fname, new, {}]))
                                break
                    continue
                if want('DeleteField') and not (refs.get(fname, set()) -
                                                {'unique_together'}):
                    out.append((label, ['DeleteField', mname, fname]))
                if want('RenameField') and not refs.get(fname):
                    for new in fresh_names:
                        if new in have:
                            continue
                        if f['type'] == 'M2M':
                            out.append((label, ['RenameField', mname, fname,
                                                new, {}]))
                            if level == 'full':
                                out.append((label, [
                                    'RenameField', mname, fname, new,
                                    {'db_table': S.m2m_table(label, m, f)}]))
                        else:
                            out.append((label, ['RenameField', mname, fname,
                                                new, {}]))
                            if level == 'full':
                                out.append((label, [
                                    'RenameField', mname, fname, new,
                                    {'db_column': S.column_name(f)}]))
                        break
                    if level == 'full' and f['type'] not in ('M2M',) and \
                            not f['attrs'].get('db_column'):
                        # the field keeps its name and moves to another
                        # column
                        out.append((label, [
                            'RenameField', mname, fname, fname,
                            {'db_column': 'col_' + fname}]))
                if want('ChangeField') and f['type'] != 'M2M':
                    out += [(label, c) for c in change_menu(mname, f, level)]
            if want('ChangeMeta'):
                for prop, v in meta_menu(m, level):
                    out.append((label, ['ChangeMeta', mname, prop, v]))
            if want('RenameModel'):
                for new in rename_models:
                    if S.get_model(project, label, new) is None:
                        out.append((label, ['RenameModel', mname, new,
                                            S.default_table(label, new)]))
                        if level == 'full':
                            out.append((label, ['RenameModel', mname, new,
                                                S.table_name(label, m)]))
                            out.append((label, ['RenameModel', mname, new,
                                                'custom_tbl']))
                        break
            if want('DeleteModel'):
                if all(om is m for _, om, _f in
                       S.relations_to(project, label, mname)):
                    out.append((label, ['DeleteModel', mname]))
        if want('DeleteApplication') and app['models']:
            ok = True
            for m in app['models']:
                for al, om, f in S.relations_to(project, label, m['name']):
                    if al != label:
                        ok = False
            if ok:
                out.append((label, ['DeleteApplication']))
        if want('RenameAppLabel') and kinds is not None and app['models']:
            new = 'vz'
            if S.get_app(project, new) is None:
                out.append((label, ['RenameAppLabel', label, new]))
        if want('SQLBarrier') and kinds is not None:
            out.append((label, ['SQLBarrier', 'barrier']))
    # validate against the reference semantics (drops anything Disabled)
    res = []
    for label, mj in out:
        try:
            ML.apply(project, label, mj)
        except ML.Disabled:
            continue
        res.append((label, mj))
    return res


def change_menu(mname, f, level):
    out = []
    t = f['type']
    a = f['attrs']
    name = f['name']
    def cf(attrs, initial=None, ftype=None):
        out.append(['ChangeField', mname, name, attrs, initial, ftype])
    rel = t in ('FK', 'O2O')
    if level == 'tiny':
        if a.get('null'):
            cf({'null': False}, INITIALS[t][0] if t in INITIALS else 1)
        else:
            cf({'null': True})
        if t == 'Char':
            cf({'max_length': 30 if a.get('max_length') != 30 else 20})
        return out
    # null
    if a.get('null'):
        if rel:
            cf({'null': False}, 1)
        else:
            for init in INITIALS[t][:1 if level == 'lite' else 2]:
                cf({'null': False}, init)
    else:
        cf({'null': True})
    if rel and level != 'lite' and t == 'FK':
        # a ForeignKey is indexed unless told otherwise
        cf({'db_index': not a.get('db_index', True)})
    if not rel:
        if t not in ('Text',) and not a.get('unique'):
            cf({'db_index': not a.get('db_index', False)})
        if t in ('Char', 'Int') and not a.get('db_index'):
            cf({'unique': not a.get('unique', False)})
        if t == 'Char':
            ml = a.get('max_length')
            cf({'max_length': 30 if ml != 30 else 20})
            if level != 'lite':
                cf({'max_length': 10 if ml != 10 else 20})
                if a.get('null'):
                    # an initial value that has nothing to do: the column
                    # stays nullable, its NULLs must stay
                    cf({'max_length': 30 if ml != 30 else 20},
                       INITIALS['Char'][0])
                # the same change with the (unchanged) field type restated
                cf({'max_length': 30 if ml != 30 else 20}, None, t)
        if t == 'Decimal':
            cf({'max_digits': 7, 'decimal_places': 3}
               if a.get('max_digits') != 7 else
               {'max_digits': 5, 'decimal_places': 2})
        if level != 'lite':
            for nt in STORAGE_CLASS.get(t, []):
                na = {}
                if t == 'Char' and nt == 'Text':
                    # a type change replaces the attribute set
                    na = {k: v for k, v in a.items() if k != 'max_length'}
                elif nt == 'Char':
                    na = dict(a, max_length=20)
                else:
                    na = dict(a)
                init = None
                out.append(['ChangeField', mname, name, na, init, nt])
                if a.get('null') and t in INITIALS:
                    # type change combined with null -> not null
                    nb = {k: v for k, v in na.items() if k != 'null'}
                    nb['null'] = False
                    out.append(['ChangeField', mname, name, nb,
                                INITIALS[t][0], nt])
    if not rel and level != 'lite' and not a.get('unique') and \
            t in ('Char', 'Int'):
        # two attributes in ONE ChangeField: an index change together with
        # a change that rebuilds the table
        flip = not a.get('db_index', False)
        if t == 'Char':
            cf({'db_index': flip,
                'max_length': 30 if a.get('max_length') != 30 else 20})
        elif not a.get('null'):
            cf({'db_index': flip, 'null': True})
    if not rel:
        if a.get('db_column'):
            cf({'db_column': None})
        else:
            cf({'db_column': 'custom_' + name})
    return out
