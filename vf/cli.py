"""CLI: ./vcheck <ID> --tier quick|thorough [--replay FILE]"""
import argparse
import importlib
import os
import sys
import time


def main(argv=None):
    ap = argparse.ArgumentParser()
    ap.add_argument('prop')
    ap.add_argument('--tier', default=os.environ.get('VERIF_TIER', 'quick'),
                    choices=['quick', 'thorough'])
    ap.add_argument('--replay')
    ap.add_argument('--no-confirm', action='store_true')
    args = ap.parse_args(argv)
    seed = int(os.environ.get('VERIF_SEED', '0') or 0)
    mod = importlib.import_module('vf.checks.%s' % args.prop.lower())
    if args.replay:
        from vf import bootstrap
        bootstrap.setup()
        return mod.replay(args.replay)
    from vf.explore import HarnessError
    t0 = time.time()
    try:
        code = mod.run(args.tier, seed, confirm=not args.no_confirm)
    except HarnessError as e:
        print('HARNESS-ERROR property=%s %s' % (args.prop, e))
        return 2
    print('%s %s: exit %d in %.1fs' % (args.prop, args.tier, code,
                                       time.time() - t0))
    return code


def sweep_scratch():
    """Remove scratch directories left by worker processes that were
    terminated with their pool (verif-<pid>-*, pid no longer alive)."""
    import re
    import shutil
    root = os.environ.get('VERIF_SCRATCH', '/var/tmp')
    try:
        names = os.listdir(root)
    except OSError:
        return
    for name in names:
        m = re.match(r'verif-(\d+)-', name)
        if m and not os.path.exists('/proc/%s' % m.group(1)):
            shutil.rmtree(os.path.join(root, name), ignore_errors=True)


if __name__ == '__main__':
    try:
        rc = main()
    finally:
        sweep_scratch()
    sys.exit(rc)
