"""Drivers: ways of pushing mutations through the real implementation."""
import itertools

from vf import mutlang as ML, observe as O

REFUSALS = ('EvolutionNotImplementedError', 'SimulationFailure',
            'CannotSimulate')


class RunResult(object):
    def __init__(self):
        self.ok = False
        self.stage = None          # 'generate' | 'execute'
        self.exc = None
        self.exc_type = None
        self.sig = None            # final simulated signature
        self.first_pass_sig = None
        self.statements = []       # executed effect statements (sql, params)
        self.sql = None            # generated sql list
        self.mutations = None


def group_steps(steps):
    """Consecutive steps of the same app form one AppMutator run."""
    for label, grp in itertools.groupby(steps, key=lambda s: s[0]):
        yield label, [s[1] for s in grp]


def d1(sig, steps, db='default', real=None, execute=True):
    """Bare AppMutator: DatabaseState scanned from the real database (never
    pre-registering tables), one AppMutator per run of same-app steps.
    `real` optionally supplies pre-built mutation objects (parallel to
    steps)."""
    from django_evolution.db.state import DatabaseState
    from django_evolution.mutators import AppMutator
    from django_evolution.utils.sql import SQLExecutor
    res = RunResult()
    sig = sig.clone()
    tracer = O.Tracer(db)
    idx = 0
    res.mutations = []
    try:
        for label, mjs in group_steps(steps):
            if real is not None:
                muts = real[idx:idx + len(mjs)]
            else:
                muts = [ML.to_real(mj) for mj in mjs]
            idx += len(mjs)
            res.mutations += muts
            res.stage = 'generate'
            state = DatabaseState(db, scan=True)
            mutator = AppMutator(app_label=label, project_sig=sig,
                                 database_state=state, database=db)
            mutator.run_mutations(muts)
            res.first_pass_sig = sig
            sql = mutator.to_sql()
            res.sql = (res.sql or []) + list(sql)
            sig = mutator.project_sig
            if execute:
                res.stage = 'execute'
                with tracer.active():
                    with SQLExecutor(database=db,
                                     check_constraints=False) as ex:
                        ex.run_sql(sql, execute=True)
        res.ok = True
        res.sig = sig
    except Exception as e:   # noqa
        res.exc = e
        res.exc_type = type(e).__name__
        _abort_transactions(db)
    res.statements = tracer.effects()
    return res


def _abort_transactions(db):
    from django.db import connections
    conn = connections[db]
    try:
        while conn.in_atomic_block:
            conn.needs_rollback = True
            from django.db import transaction
            transaction.Atomic(db, True, False).__exit__(None, None, None)
    except Exception:
        pass


def rebuilds(statements):
    """Names of tables rebuilt (CREATE TABLE "TEMP_TABLE" ... followed by
    ALTER TABLE "TEMP_TABLE" RENAME TO x)."""
    out = []
    pending = False
    for sql, params in statements:
        s = sql.strip()
        if s.startswith('CREATE TABLE "TEMP_TABLE"'):
            pending = True
        elif pending and s.startswith('ALTER TABLE "TEMP_TABLE" RENAME TO'):
            out.append(s.split('RENAME TO', 1)[1].strip().rstrip(';')
                       .strip('"'))
            pending = False
    return out
