"""Drivers: ways of pushing mutations through the real implementation."""
import itertools

from vf import mutlang as ML, observe as O

REFUSALS = ('EvolutionNotImplementedError', 'SimulationFailure',
            'CannotSimulate')


class RunResult(object):
    def __init__(self):
        self.ok = False
        self.stage = None          # 'generate' | 'execute'
        self.exc = None
        self.exc_type = None
        self.sig = None            # final simulated signature
        self.second_pass_sig = None
        self.statements = []       # executed effect statements (sql, params)
        self.sql = None            # generated sql list
        self.mutations = None


def group_steps(steps):
    """Consecutive steps of the same app form one AppMutator run."""
    for label, grp in itertools.groupby(steps, key=lambda s: s[0]):
        yield label, [s[1] for s in grp]


LEGACY_LABELS = {}      # app label -> package (module) name, when an app's
                        # label differs from its package (set by the engine
                        # from the spec; production derives it from the
                        # app module)


def d1(sig, steps, db='default', real=None, execute=True):
    """Bare AppMutator: DatabaseState scanned from the real database (never
    pre-registering tables), one AppMutator per run of same-app steps.
    `real` optionally supplies pre-built mutation objects (parallel to
    steps)."""
    from django_evolution.db.state import DatabaseState
    from django_evolution.mutators import AppMutator
    from django_evolution.utils.sql import SQLExecutor
    res = RunResult()
    sig = sig.clone()
    tracer = O.Tracer(db)
    idx = 0
    res.mutations = []
    try:
        for label, mjs in group_steps(steps):
            if real is not None:
                muts = real[idx:idx + len(mjs)]
            else:
                muts = [ML.to_real(mj) for mj in mjs]
            idx += len(mjs)
            res.mutations += muts
            res.stage = 'generate'
            state = DatabaseState(db, scan=True)
            mutator = AppMutator(app_label=label, project_sig=sig,
                                 database_state=state, database=db,
                                 legacy_app_label=LEGACY_LABELS.get(label))
            mutator.run_mutations(muts)
            sql = mutator.to_sql()
            res.sql = (res.sql or []) + list(sql)
            # `sig` (mutated in place by the first pass) is what the Evolver
            # keeps as the resulting signature; the second pass replays the
            # recorded operations on a pristine copy to generate the SQL.
            res.second_pass_sig = mutator.project_sig
            if execute:
                res.stage = 'execute'
                with tracer.active():
                    with SQLExecutor(database=db,
                                     check_constraints=False) as ex:
                        ex.run_sql(sql, execute=True)
        res.ok = True
        res.sig = sig
    except Exception as e:   # noqa
        res.exc = e
        res.exc_type = type(e).__name__
        _abort_transactions(db)
    res.statements = tracer.effects()
    return res


def _abort_transactions(db):
    from django.db import connections
    conn = connections[db]
    try:
        while conn.in_atomic_block:
            conn.needs_rollback = True
            from django.db import transaction
            transaction.Atomic(db, True, False).__exit__(None, None, None)
    except Exception:
        pass


def rebuilds(statements):
    """Names of tables rebuilt (CREATE TABLE "TEMP_TABLE" ... followed by
    ALTER TABLE "TEMP_TABLE" RENAME TO x)."""
    out = []
    pending = False
    for sql, params in statements:
        s = sql.strip()
        if s.startswith('CREATE TABLE "TEMP_TABLE"'):
            pending = True
        elif pending and s.startswith('ALTER TABLE "TEMP_TABLE" RENAME TO'):
            out.append(s.split('RENAME TO', 1)[1].strip().rstrip(';')
                       .strip('"'))
            pending = False
    return out


# ---------------------------------------------------------------- D2/D3/D4

_baseline_cache = {}


def baseline(project, rows=None, evolutions=None, extra_key='',
             db='default'):
    """Database image after a *fresh install* of `project` through the real
    Evolver (creates the django_evolution tables, all model tables, records
    the whole SEQUENCE as applied).  Cached per (project, rows)."""
    from vf import spec as S, materialize as MZ, bootstrap as B, rows as RW
    key = S.canon(project) + '|' + str(rows) + '|' + extra_key + '|' + db
    img = _baseline_cache.get(key)
    if img is not None:
        return img
    from django_evolution.evolve import Evolver
    MZ.install(project, evolutions=evolutions)
    B.fresh_db(db)
    B.reset_globals()
    ev = Evolver(database_name=db)
    ev.queue_evolve_all_apps()
    ev.evolve()
    if rows:
        RW.populate(project, rows, db)
    img = B.snapshot(db)
    if len(_baseline_cache) > 500:
        _baseline_cache.clear()
    _baseline_cache[key] = img
    return img


def stored_signature(db='default'):
    from django_evolution.models import Version
    return Version.objects.using(db).order_by('-id')[0].signature


def d2(app_label, evolutions, db='default', tracer=None, hinted=False,
       purge=False, extra_apps=(), abort=True):
    """Evolver + EvolveAppTask with in-memory custom evolutions
    ([{'label':..., 'mutations': [...]}]); the production path including
    prepare() followed by _build_batches().  The current (target) models
    must already be installed."""
    from django_evolution.compat.apps import get_app
    from django_evolution.evolve import Evolver, EvolveAppTask
    res = RunResult()
    tracer = tracer or O.Tracer(db)
    res.stage = 'prepare'
    try:
        with tracer.active():
            ev = Evolver(database_name=db, hinted=hinted)
            task = EvolveAppTask(ev, get_app(app_label),
                                 evolutions=evolutions)
            ev.queue_task(task)
            for other in extra_apps:
                ev.queue_task(EvolveAppTask(ev, get_app(other)))
            if purge:
                ev.queue_purge_old_apps()
            ev._prepare_tasks()
            res.stage = 'execute'
            res.evolver = ev
            ev.evolve()
        res.ok = True
        res.sig = ev.project_sig
    except Exception as e:  # noqa
        res.exc = e
        res.exc_type = type(e).__name__
        if abort:
            _abort_transactions(db)
    res.statements = tracer.effects()
    return res


def d2_all(db='default', tracer=None, apps=None, purge=False):
    """Evolver.queue_evolve_all_apps() (or the given app labels) + evolve(),
    evolutions discovered the normal way."""
    from django_evolution.compat.apps import get_app
    from django_evolution.evolve import Evolver
    res = RunResult()
    tracer = tracer or O.Tracer(db)
    res.stage = 'prepare'
    try:
        with tracer.active():
            ev = Evolver(database_name=db)
            if apps is None:
                ev.queue_evolve_all_apps()
            else:
                for label in apps:
                    ev.queue_evolve_app(get_app(label))
            if purge:
                ev.queue_purge_old_apps()
            res.required = ev.get_evolution_required()
            res.stage = 'execute'
            ev.evolve()
        res.ok = True
        res.sig = ev.project_sig
        res.evolver = ev
    except Exception as e:  # noqa
        res.exc = e
        res.exc_type = type(e).__name__
        _abort_transactions(db)
    res.statements = tracer.effects()
    return res


def d3(db='default', tracer=None, **opts):
    """`evolve` management command (--execute --noinput by default)."""
    import io
    from django.core.management import call_command
    res = RunResult()
    tracer = tracer or O.Tracer(db)
    out, err = io.StringIO(), io.StringIO()
    kw = dict(execute=True, interactive=False, database=db, verbosity=0,
              stdout=out, stderr=err)
    kw.update(opts)
    res.stage = 'command'
    try:
        with tracer.active():
            call_command('evolve', **kw)
        res.ok = True
    except BaseException as e:  # CommandError / SystemExit
        res.exc = e
        res.exc_type = type(e).__name__
        _abort_transactions(db)
    res.stdout = out.getvalue()
    res.stderr = err.getvalue()
    res.statements = tracer.effects()
    return res


def d4(db='default', tracer=None, **opts):
    """the replaced `migrate` command."""
    import io
    from django.core.management import call_command
    res = RunResult()
    tracer = tracer or O.Tracer(db)
    out, err = io.StringIO(), io.StringIO()
    kw = dict(interactive=False, database=db, verbosity=0, stdout=out,
              stderr=err)
    kw.update(opts)
    res.stage = 'command'
    import contextlib
    try:
        with tracer.active(), contextlib.redirect_stdout(out), \
                contextlib.redirect_stderr(err):
            call_command('migrate', **kw)
        res.ok = True
    except BaseException as e:
        res.exc = e
        res.exc_type = type(e).__name__
        _abort_transactions(db)
    res.stdout = out.getvalue()
    res.stderr = err.getvalue()
    res.statements = tracer.effects()
    return res
