"""Observers: canonical schema / row / bookkeeping dumps of a SQLite database,
statement tracer, signal recorder."""
import json
import re
from contextlib import contextmanager

BOOKKEEPING_TABLES = ('django_evolution', 'django_project_version',
                      'django_migrations')


def _cursor(alias):
    from django.db import connections
    conn = connections[alias]
    conn.ensure_connection()
    return conn.connection.cursor()


def _norm_sql(text):
    if text is None:
        return None
    text = re.sub(r'\s+', ' ', text.strip())
    return text


_CHECK_RE = re.compile(r'CHECK\s*\(', re.I)


def _extract_checks(create_sql):
    """Return the normalised text of every CHECK (...) clause in a CREATE
    TABLE statement, except the built-in ones Django adds for positive
    integer columns (those are keyed as column checks, separately)."""
    out = []
    if not create_sql:
        return out
    for m in _CHECK_RE.finditer(create_sql):
        i = m.end()
        depth = 1
        j = i
        while j < len(create_sql) and depth:
            ch = create_sql[j]
            if ch == '(':
                depth += 1
            elif ch == ')':
                depth -= 1
            j += 1
        body = create_sql[i:j - 1]
        body = re.sub(r'\s+', ' ', body.strip())
        body = body.replace('`', '"')
        # look back for CONSTRAINT "name"
        out.append(body)
    return sorted(out)


def list_tables(alias='default'):
    cur = _cursor(alias)
    cur.execute("SELECT name FROM sqlite_master WHERE type='table' "
                "AND name NOT LIKE 'sqlite_%' ORDER BY name")
    return [r[0] for r in cur.fetchall()]


def q(name):
    return '"%s"' % name.replace('"', '""')


def table_dump(table, alias='default', names=False):
    """Canonical description of one table.

    columns: sorted tuples (name, declared type lower, notnull, pk)
    indexes: sorted tuples ((col|expr, desc)..., unique, partial predicate)
    fks:     sorted tuples (from, table, to)
    checks:  sorted normalised CHECK clause bodies
    With names=True index names are included (used for de-duplication keys
    only, never by oracles)."""
    cur = _cursor(alias)
    cur.execute('PRAGMA table_info(%s)' % q(table))
    cols = sorted((r[1], (r[2] or '').lower(), int(bool(r[3])), int(bool(r[5])))
                  for r in cur.fetchall())
    cur.execute('PRAGMA index_list(%s)' % q(table))
    idx_rows = cur.fetchall()
    indexes = []
    for row in idx_rows:
        iname, unique, origin, partial = row[1], row[2], row[3], row[4]
        cur.execute('PRAGMA index_xinfo(%s)' % q(iname))
        parts = []
        for x in cur.fetchall():
            # seqno, cid, name, desc, coll, key
            if not x[5]:
                continue
            parts.append((x[2] if x[2] is not None else '<expr>', int(x[3])))
        pred = None
        if partial:
            cur.execute("SELECT sql FROM sqlite_master WHERE type='index' "
                        "AND name=?", (iname,))
            r = cur.fetchone()
            sql = r[0] if r else ''
            m = re.search(r'\bWHERE\b(.*)$', sql or '', re.I | re.S)
            pred = _norm_pred(m.group(1)) if m else '?'
        if origin == 'pk':
            continue
        entry = (tuple(parts), int(bool(unique)), pred)
        if names:
            entry = entry + (iname,)
        indexes.append(entry)
    cur.execute('PRAGMA foreign_key_list(%s)' % q(table))
    fks = sorted((r[3], r[2], r[4]) for r in cur.fetchall())
    cur.execute("SELECT sql FROM sqlite_master WHERE type='table' AND name=?",
                (table,))
    r = cur.fetchone()
    create_sql = r[0] if r else None
    checks = [_norm_pred(c) for c in _extract_checks(create_sql)]
    return {
        'columns': cols,
        'indexes': sorted(indexes, key=repr),
        'fks': fks,
        'checks': sorted(checks),
    }


def _norm_pred(text):
    text = re.sub(r'\s+', ' ', text.strip())
    text = text.replace('`', '"')
    # strip redundant outer parentheses
    while text.startswith('(') and text.endswith(')'):
        depth = 0
        ok = True
        for i, ch in enumerate(text):
            if ch == '(':
                depth += 1
            elif ch == ')':
                depth -= 1
                if depth == 0 and i != len(text) - 1:
                    ok = False
                    break
        if ok:
            text = text[1:-1].strip()
        else:
            break
    return text


def schema_dump(alias='default', names=False, skip=BOOKKEEPING_TABLES):
    out = {}
    for t in list_tables(alias):
        if t in skip:
            continue
        out[t] = table_dump(t, alias, names=names)
    return out


def fk_check(alias='default'):
    cur = _cursor(alias)
    try:
        cur.execute('PRAGMA foreign_key_check')
    except Exception as e:     # e.g. "foreign key mismatch": the schema's
        # REFERENCES clause names a column that is not a key of the parent
        return [('foreign_key_check-failed', str(e))]
    return [tuple(r) for r in cur.fetchall()]


def raw_table_image(table, alias='default'):
    """Everything about one table, verbatim (for 'left exactly as it was')."""
    cur = _cursor(alias)
    cur.execute("SELECT type, name, sql FROM sqlite_master WHERE tbl_name=? "
                "ORDER BY type, name", (table,))
    master = [tuple(r) for r in cur.fetchall()]
    cur.execute('SELECT * FROM %s ORDER BY 1' % q(table))
    rows = [tuple(r) for r in cur.fetchall()]
    return {'master': master, 'rows': rows}


def row_dump(alias='default', skip=BOOKKEEPING_TABLES):
    """{table: {'cols': [...], 'rows': sorted [(value, typeof)...]}}"""
    cur = _cursor(alias)
    out = {}
    for t in list_tables(alias):
        if t in skip:
            continue
        cur.execute('PRAGMA table_info(%s)' % q(t))
        cols = sorted(r[1] for r in cur.fetchall())
        sel = ', '.join('%s, typeof(%s)' % (q(c), q(c)) for c in cols)
        cur.execute('SELECT %s FROM %s' % (sel, q(t)))
        rows = []
        for r in cur.fetchall():
            rows.append(tuple((r[2 * i], r[2 * i + 1])
                              for i in range(len(cols))))
        out[t] = {'cols': cols, 'rows': sorted(rows, key=repr)}
    return out


def bookkeeping_dump(alias='default'):
    cur = _cursor(alias)
    tables = list_tables(alias)
    out = {'evolutions': None, 'versions': None, 'migrations': None}
    if 'django_evolution' in tables:
        cur.execute('SELECT app_label, label, version_id FROM django_evolution'
                    ' ORDER BY id')
        out['evolutions'] = [tuple(r) for r in cur.fetchall()]
    if 'django_project_version' in tables:
        cur.execute('SELECT id, signature FROM django_project_version '
                    'ORDER BY id')
        vs = []
        for vid, sig in cur.fetchall():
            if sig and sig.startswith('json!'):
                sig = json.dumps(json.loads(sig[5:]), sort_keys=True)
            vs.append((vid, sig))
        out['versions'] = vs
    if 'django_migrations' in tables:
        cur.execute('SELECT app, name FROM django_migrations ORDER BY id')
        out['migrations'] = [tuple(r) for r in cur.fetchall()]
    return out


READ_PREFIXES = ('SELECT', 'SAVEPOINT', 'RELEASE', 'ROLLBACK TO', 'EXPLAIN')


def is_effect(sql):
    s = sql.lstrip().upper()
    if s.startswith(READ_PREFIXES):
        return False
    if s.startswith('PRAGMA'):
        # PRAGMA x = y is an effect, PRAGMA x / x(arg) is a query
        return '=' in s
    if s.startswith('BEGIN') or s.startswith('COMMIT') or s == 'ROLLBACK':
        return False
    return True


class Tracer(object):
    """Statement trace through connection.execute_wrapper, with optional fault
    injection at the k-th effect statement matching `match`."""

    def __init__(self, alias='default', fault_at=None, fault_exc=None,
                 seq=None, match=None):
        self.alias = alias
        self.statements = []     # (seqno, sql, params)
        self.fault_at = fault_at
        self.fault_exc = fault_exc
        self.seq = seq if seq is not None else [0]
        self.match = match
        self.effect_count = 0
        self.faulted = None

    def __call__(self, execute, sql, params, many, context):
        self.seq[0] += 1
        eff = is_effect(sql) and (self.match is None or self.match(sql))
        if eff:
            self.effect_count += 1
            if self.fault_at is not None and \
                    self.effect_count == self.fault_at:
                self.faulted = (sql, params)
                self.statements.append((self.seq[0], sql, params, 'FAULT'))
                from django.db.utils import OperationalError
                raise (self.fault_exc or
                       OperationalError('injected fault at statement %d'
                                        % self.fault_at))
        self.statements.append((self.seq[0], sql, params, None))
        return execute(sql, params, many, context)

    def effects(self):
        return [(s, p) for (_, s, p, _f) in self.statements
                if is_effect(s) and (self.match is None or self.match(s))]

    @contextmanager
    def active(self):
        from django.db import connections
        with connections[self.alias].execute_wrapper(self):
            yield self


def render(sql, params):
    """Render a statement with parameters substituted the way
    SQLExecutor.run_sql(capture=True) does (for comparisons)."""
    if not params:
        return sql
    def qp(p):
        if isinstance(p, str):
            return "'%s'" % p.replace("'", r"\'")
        return p
    return sql % tuple(qp(p) for p in params)


SIGNAL_NAMES = ('evolving', 'evolving_failed', 'evolved',
                'applying_evolution', 'applied_evolution',
                'applying_migration', 'applied_migration',
                'creating_models', 'created_models')


class SignalLog(object):
    def __init__(self, seq=None):
        self.seq = seq if seq is not None else [0]
        self.events = []
        self._receivers = []

    def __enter__(self):
        from django_evolution import signals
        for name in SIGNAL_NAMES:
            sig = getattr(signals, name, None)
            if sig is None:
                continue
            def recv(sender=None, _name=name, **kw):
                self.seq[0] += 1
                payload = {}
                if 'evolutions' in kw:
                    payload['evolutions'] = [
                        (e.app_label, e.label) for e in kw['evolutions']]
                if 'task' in kw:
                    payload['app_label'] = kw['task'].app_label
                if 'migration' in kw:
                    m = kw['migration']
                    payload['migration'] = (m.app_label, m.name)
                if 'model_names' in kw:
                    payload['app_label'] = kw.get('app_label')
                    payload['model_names'] = list(kw['model_names'])
                if 'exception' in kw:
                    payload['exception'] = type(kw['exception']).__name__
                self.events.append((self.seq[0], _name, payload))
            sig.connect(recv, weak=False)
            self._receivers.append((sig, recv))
        return self

    def __exit__(self, *a):
        for sig, recv in self._receivers:
            sig.disconnect(recv)
        self._receivers = []
