"""Controllable set iteration order (C14).

The name `set` is shadowed in the modules that feed SQL/hint generation by a
subclass whose iteration order is chosen by the explorer: the k-th iteration
of a set with >= 2 elements takes the k-th entry of `PLAN` (an index into the
permutations of the sorted elements; 0 = sorted order)."""
import itertools

PLAN = {}          # choice point index -> permutation index
LOG = []           # sizes of the choice points of the current run
ACTIVE = [False]

MODULES = [
    'django_evolution.db.common',
    'django_evolution.db.sqlite3',
    'django_evolution.db.state',
    'django_evolution.mutators.app_mutator',
    'django_evolution.mutators.model_mutator',
    'django_evolution.utils.graph',
    'django_evolution.utils.evolutions',
    'django_evolution.utils.migrations',
    'django_evolution.evolve.evolve_app_task',
    'django_evolution.evolve.evolver',
    'django_evolution.signature',
    'django_evolution.diff',
    'django_evolution.mutations.move_to_django_migrations',
    'django_evolution.mutations.rename_app_label',
    'django_evolution.mutations.change_meta',
]


def _key(x):
    return repr(x)


class ChoiceSet(set):
    def __iter__(self):
        items = sorted(set.__iter__(self), key=_key)
        if not ACTIVE[0] or len(items) < 2:
            return iter(items)
        idx = len(LOG)
        LOG.append(len(items))
        choice = PLAN.get(idx, 0)
        if choice == 0:
            return iter(items)
        if len(items) <= 4:
            perms = list(itertools.permutations(items))
            return iter(perms[choice % len(perms)])
        # larger sets: deviation = rotation / reversal
        if choice == 1:
            return iter(list(reversed(items)))
        r = choice % len(items)
        return iter(items[r:] + items[:r])

    def _wrap(self, res):
        return ChoiceSet(res)

    def difference(self, *a):
        return self._wrap(set.difference(self, *a))

    def union(self, *a):
        return self._wrap(set.union(self, *a))

    def intersection(self, *a):
        return self._wrap(set.intersection(self, *a))

    def symmetric_difference(self, a):
        return self._wrap(set.symmetric_difference(self, a))

    def copy(self):
        return self._wrap(set.copy(self))

    def __sub__(self, o):
        return self._wrap(set.__sub__(self, o))

    def __or__(self, o):
        return self._wrap(set.__or__(self, o))

    def __and__(self, o):
        return self._wrap(set.__and__(self, o))

    def __xor__(self, o):
        return self._wrap(set.__xor__(self, o))


def n_alternatives(size):
    if size <= 4:
        n = 1
        for i in range(2, size + 1):
            n *= i
        return n
    return size + 1


def install():
    import importlib
    for name in MODULES:
        try:
            mod = importlib.import_module(name)
        except ImportError:
            continue
        mod.set = ChoiceSet


def uninstall():
    import importlib
    import sys
    for name in MODULES:
        mod = sys.modules.get(name)
        if mod is not None and getattr(mod, 'set', None) is ChoiceSet:
            del mod.set


def start(plan=None):
    PLAN.clear()
    PLAN.update(plan or {})
    del LOG[:]
    ACTIVE[0] = True


def stop():
    ACTIVE[0] = False
    return list(LOG)
