"""Row profiles (start-state contents) and the reference row semantics."""
from vf import spec as S, observe as O

# value domains per column type (NULLs are added for nullable columns)
DOMAIN = {
    'Char': ['', "it's", '100%', 'a"b', 'ü', 'plain'],
    'Text': ['', "t'x", '%s', 'long text', 'a"b', 'ü'],
    'Int': [0, -1, 2147483647, -2147483648, 5, 6],
    'BigInt': [0, -1, 9223372036854775807, 2147483648, 5, 6],
    'PosInt': [0, 1, 2147483647, 3, 4, 5],
    'Bool': [1, 0, 1, 0, 1, 0],
    'Decimal': ['0.00', '-1.50', '999.99', '1.00', '2.25', '3.10'],
    'DateTime': ['2020-01-02 03:04:05', '1999-12-31 23:59:59.999999',
                 '2020-01-02 03:04:06', '2021-01-01 00:00:00',
                 '2022-02-02 02:02:02', '2023-03-03 03:03:03'],
}
PROFILE_ROWS = {'R0': 0, 'R2': 2, 'R6': 6}


def _cursor(alias):
    from django.db import connections
    c = connections[alias]
    c.ensure_connection()
    return c.connection.cursor()


def populate(project, profile, alias='default'):
    """Insert rows (raw SQL) into every table of `project`.  Unique columns
    get distinct values; nullable columns get NULL in the second row; FK
    columns point at existing rows (NULL in one row when nullable)."""
    n = PROFILE_ROWS[profile]
    if n == 0:
        return
    cur = _cursor(alias)
    # models first (ids 1..n), in spec order; FKs may point forward, SQLite
    # does not enforce at insert time with foreign_keys off... they are on
    # in Django, so insert with deferred checking inside one transaction.
    cur.execute('PRAGMA foreign_keys = OFF')
    for label, m in S.iter_models(project):
        table = S.table_name(label, m)
        uniq_cols = set()
        for e in m['meta'].get('unique_together', []):
            uniq_cols.update(e)
        for c in m['meta'].get('constraints', []):
            if c['type'] == 'unique':
                uniq_cols.update(c['fields'])
        for i in range(n):
            cols, vals = ['id'] if S.pk_field(m)['name'] == 'id' else [], \
                [i + 1] if S.pk_field(m)['name'] == 'id' else []
            for f in m['fields']:
                if f['type'] == 'M2M':
                    continue
                col = S.column_name(f)
                a = f['attrs']
                if f['type'] in ('FK', 'O2O'):
                    if a.get('null') and i == 1 and f['type'] == 'FK':
                        v = None
                    elif f['type'] == 'O2O' or a.get('unique'):
                        v = i + 1
                    else:
                        v = (i % n) + 1 if i % 2 == 0 else 1
                elif a.get('primary_key'):
                    v = i + 1 if f['type'] != 'Char' else 'k%d' % (i + 1)
                else:
                    dom = DOMAIN[f['type']]
                    unique = a.get('unique') or f['name'] in uniq_cols
                    if a.get('null') and i == 1:
                        v = None
                    elif unique:
                        v = dom[i] if len(set(dom)) >= n and \
                            f['type'] != 'Bool' else dom[i % len(dom)]
                    else:
                        v = dom[i % len(dom)]
                    if f['type'] == 'Char' and a.get('max_length') and \
                            v is not None:
                        v = v[:a['max_length']]
                cols.append(col)
                vals.append(v)
            cur.execute('INSERT INTO %s (%s) VALUES (%s)' % (
                O.q(table), ', '.join(O.q(c) for c in cols),
                ', '.join('?' for _ in cols)), vals)
    for label, m in S.iter_models(project):
        for f in m['fields']:
            if f['type'] != 'M2M':
                continue
            table = S.m2m_table(label, m, f)
            cur.execute('PRAGMA table_info(%s)' % O.q(table))
            cols = [r[1] for r in cur.fetchall() if r[1] != 'id']
            for i in range(n):
                cur.execute('INSERT INTO %s (%s) VALUES (?, ?)' % (
                    O.q(table), ', '.join(O.q(c) for c in cols)),
                    [(i % n) + 1, ((i * 2) % n) + 1 if n > 1 else 1])
    cur.execute('PRAGMA foreign_keys = ON')
    cur.connection.commit()
    return True
