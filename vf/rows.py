"""Row profiles (start-state contents) and the reference row semantics."""
from vf import spec as S, observe as O

# value domains per column type (NULLs are added for nullable columns)
DOMAIN = {
    'Char': ['', "it's", '100%', 'a"b', 'ü', 'plain'],
    'Text': ['', "t'x", '%s', 'long text', 'a"b', 'ü'],
    'Int': [0, -1, 2147483647, -2147483648, 5, 6],
    'BigInt': [0, -1, 9223372036854775807, 2147483648, 5, 6],
    'PosInt': [0, 1, 2147483647, 3, 4, 5],
    'Bool': [1, 0, 1, 0, 1, 0],
    'Decimal': ['0.00', '-1.50', '999.99', '1.00', '2.25', '3.10'],
    'DateTime': ['2020-01-02 03:04:05', '1999-12-31 23:59:59.999999',
                 '2020-01-02 03:04:06', '2021-01-01 00:00:00',
                 '2022-02-02 02:02:02', '2023-03-03 03:03:03'],
}
PROFILE_ROWS = {'R0': 0, 'R2': 2, 'R6': 6}


def _cursor(alias):
    from django.db import connections
    c = connections[alias]
    c.ensure_connection()
    return c.connection.cursor()


# character primary keys that look like numbers (a column wrongly typed as
# integer would change them: '007' -> 7, '1e3' -> 1000)
CHAR_PKS = ['007', '1e3', '0x1F', ' 42', '5.0', 'k6']


def populate(project, profile, alias='default'):
    """Insert rows (raw SQL) into every table of `project`.  Unique columns
    get distinct values; nullable columns get NULL in the second row; FK
    columns point at existing rows (NULL in one row when nullable)."""
    n = PROFILE_ROWS[profile]
    if n == 0:
        return
    cur = _cursor(alias)
    # models first (ids 1..n), in spec order; FKs may point forward, SQLite
    # does not enforce at insert time with foreign_keys off... they are on
    # in Django, so insert with deferred checking inside one transaction.
    cur.execute('PRAGMA foreign_keys = OFF')
    for label, m in S.iter_models(project):
        table = S.table_name(label, m)
        uniq_cols = set()
        for e in m['meta'].get('unique_together', []):
            uniq_cols.update(e)
        for c in m['meta'].get('constraints', []):
            if c['type'] == 'unique':
                uniq_cols.update(c['fields'])
        checked = set()
        for c in m['meta'].get('constraints', []):
            for k, _v in (c.get('check') or []):
                checked.add(k.split('__')[0])
        for i in range(n):
            cols, vals = ['id'] if S.pk_field(m)['name'] == 'id' else [], \
                [i + 1] if S.pk_field(m)['name'] == 'id' else []
            for f in m['fields']:
                if f['type'] == 'M2M':
                    continue
                col = S.column_name(f)
                a = f['attrs']
                if f['type'] in ('FK', 'O2O'):
                    if a.get('null') and i == 1 and f['type'] == 'FK':
                        v = None
                    elif f['type'] == 'O2O' or a.get('unique'):
                        v = i + 1
                    else:
                        v = (i % n) + 1 if i % 2 == 0 else 1
                    if v is not None:
                        # the value of the target's primary key in that row
                        tl, tm = a.get('to', '.').split('.', 1)
                        target = S.get_model(project, tl, tm)
                        tpk = S.pk_field(target) if target else None
                        if tpk is not None and tpk['type'] == 'Char':
                            v = CHAR_PKS[(v - 1) % len(CHAR_PKS)]
                elif a.get('primary_key'):
                    v = i + 1 if f['type'] != 'Char' else \
                        CHAR_PKS[i % len(CHAR_PKS)]
                else:
                    dom = DOMAIN[f['type']]
                    if f['name'] in checked:
                        dom = [1, 2, 3, 4, 5, 6]
                    unique = a.get('unique') or f['name'] in uniq_cols
                    if a.get('null') and i == 1:
                        v = None
                    elif unique:
                        v = dom[i] if len(set(dom)) >= n and \
                            f['type'] != 'Bool' else dom[i % len(dom)]
                    else:
                        v = dom[i % len(dom)]
                    if f['type'] == 'Char' and a.get('max_length') and \
                            v is not None:
                        v = v[:a['max_length']]
                cols.append(col)
                vals.append(v)
            cur.execute('INSERT INTO %s (%s) VALUES (%s)' % (
                O.q(table), ', '.join(O.q(c) for c in cols),
                ', '.join('?' for _ in cols)), vals)
    for label, m in S.iter_models(project):
        for f in m['fields']:
            if f['type'] != 'M2M':
                continue
            table = S.m2m_table(label, m, f)
            cur.execute('PRAGMA table_info(%s)' % O.q(table))
            cols = [r[1] for r in cur.fetchall() if r[1] != 'id']
            for i in range(n):
                cur.execute('INSERT INTO %s (%s) VALUES (?, ?)' % (
                    O.q(table), ', '.join(O.q(c) for c in cols)),
                    [(i % n) + 1, ((i * 2) % n) + 1 if n > 1 else 1])
    cur.execute('PRAGMA foreign_keys = ON')
    cur.connection.commit()
    return True


# ------------------------------------------------------------------------
# Reference row semantics: what the rows must be after one mutation, given
# the rows before (both in observe.row_dump form).

def stored_form(ftype, value):
    """(value, typeof) that Django's own field stores for a declared initial
    value (independent of django-evolution's normalisation)."""
    if value is None:
        return (None, 'null')
    if isinstance(value, dict) and 'callable' in value:
        lit = value['callable']
        if lit.startswith("'") and lit.endswith("'"):
            return (lit[1:-1].replace("''", "'"), 'text')
        try:
            return (int(lit), 'integer')
        except ValueError:
            return (lit, 'text')
    if ftype in ('Char', 'Text'):
        return (str(value), 'text')
    if ftype == 'Bool':
        return (1 if value else 0, 'integer')
    if ftype in ('Int', 'BigInt', 'PosInt', 'FK', 'O2O'):
        return (int(value), 'integer')
    if ftype == 'Decimal':
        # Django's SQLite backend stores decimals as text-like numerics
        return (value, 'any')
    if ftype == 'DateTime':
        return (str(value), 'text')
    return (value, 'any')


def _tables_of(project):
    """{table: ('model', label, model) | ('m2m', label, model, field)}"""
    out = {}
    for label, m in S.iter_models(project):
        out[S.table_name(label, m)] = ('model', label, m)
        for f in m['fields']:
            if f['type'] == 'M2M':
                out[S.m2m_table(label, m, f)] = ('m2m', label, m, f)
    return out


def expected_after(pre, spec_b, spec_a, step):
    """Returns (expected, notes).

    expected: {table: {'rename_from': old table or None,
                       'columns': {new_col: ('keep', old_col) |
                                            ('new', stored) |
                                            ('fill', old_col, stored)},
                       'm2m': bool}}
    Only tables that exist after the step are listed."""
    label, mj = step
    kind = mj[0]
    tb = _tables_of(spec_b)
    ta = _tables_of(spec_a)
    # model identity: name after -> name before
    def before_model(al, m):
        if kind == 'RenameModel' and al == label and m['name'] == mj[2]:
            return S.get_model(spec_b, label, mj[1]), label
        if kind == 'RenameAppLabel' and al == mj[2]:
            return S.get_model(spec_b, mj[1], m['name']), mj[1]
        return S.get_model(spec_b, al, m['name']), al
    expected = {}
    for al, m in S.iter_models(spec_a):
        mb, bl = before_model(al, m)
        table = S.table_name(al, m)
        if mb is None:
            continue
        old_table = S.table_name(bl, mb)
        cols = {}
        pk = S.pk_field(m)
        if pk['name'] == 'id':
            cols['id'] = ('keep', 'id')
        for f in m['fields']:
            # field identity
            fb = None
            is_target = (al == label or kind == 'RenameAppLabel') and \
                kind in ('AddField', 'RenameField', 'ChangeField') and \
                mb['name'] == mj[1]
            if is_target and kind == 'RenameField' and f['name'] == mj[3]:
                fb = S.get_field(mb, mj[2])
            elif is_target and kind == 'AddField' and f['name'] == mj[2]:
                fb = None
            else:
                fb = S.get_field(mb, f['name'])
            if f['type'] == 'M2M':
                mt = S.m2m_table(al, m, f)
                if fb is None:
                    expected[mt] = {'rename_from': None, 'm2m': True,
                                    'columns': None, 'new': True}
                else:
                    expected[mt] = {'rename_from': S.m2m_table(bl, mb, fb),
                                    'm2m': True, 'columns': None}
                continue
            col = S.column_name(f)
            ftype = f['type']
            if ftype in ('FK', 'O2O'):
                # the column has the type of the referenced primary key
                tl, tm = f['attrs'].get('to', '.').split('.', 1)
                target = S.get_model(spec_a, tl, tm)
                tpk = S.pk_field(target) if target else None
                if tpk is not None and tpk['type'] == 'Char':
                    ftype = 'Char'
            if fb is None:
                init = mj[5] if kind == 'AddField' else None
                cols[col] = ('new', stored_form(ftype, init))
            else:
                old_col = S.column_name(fb)
                if is_target and kind == 'ChangeField' and \
                        f['name'] == mj[2] and 'null' in mj[3] and \
                        not mj[3]['null'] and fb['attrs'].get('null'):
                    cols[col] = ('fill', old_col,
                                 stored_form(ftype, mj[4]))
                else:
                    cols[col] = ('keep', old_col)
        expected[table] = {'rename_from': old_table, 'columns': cols,
                           'm2m': False}
    return expected


def compare_rows(pre, post, expected):
    """Returns list of (clause, where) row discrepancies."""
    out = []
    for table, exp in expected.items():
        if table not in post:
            continue          # schema problem: C01's business
        got = post[table]
        src = exp['rename_from']
        if exp.get('new'):
            if got['rows']:
                out.append(('new-table-not-empty', table))
            continue
        if src not in pre:
            continue
        old = pre[src]
        if len(old['rows']) != len(got['rows']):
            out.append(('row-count', '%s: %d -> %d' % (
                table, len(old['rows']), len(got['rows']))))
            continue
        if exp['m2m']:
            def strip(d):
                idx = [i for i, c in enumerate(d['cols']) if c != 'id']
                return sorted(tuple(sorted((r[i] for i in idx), key=repr))
                              for r in d['rows'])
            if strip(old) != strip(got):
                out.append(('m2m-links-changed', table))
            continue
        # key rows by primary key value: 'id' or first column both sides
        def keyed(d, key_col):
            if key_col not in d['cols']:
                return None
            i = d['cols'].index(key_col)
            return {r[i][0]: r for r in d['rows']}
        # find pk columns
        pk_new = 'id' if 'id' in got['cols'] else None
        pk_old = 'id' if 'id' in old['cols'] else None
        if pk_new is None or pk_old is None:
            # explicit primary key: identify through the mapping
            for c, how in exp['columns'].items():
                if how[0] == 'keep' and c in got['cols'] and \
                        how[1] in old['cols']:
                    vals = [r[old['cols'].index(how[1])][0]
                            for r in old['rows']]
                    if len(set(vals)) == len(vals) and None not in vals:
                        pk_new, pk_old = c, how[1]
                        break
        if pk_new is None:
            continue
        gk, ok_ = keyed(got, pk_new), keyed(old, pk_old)
        if set(gk) != set(ok_):
            out.append(('row-identity', table))
            continue
        for c, how in exp['columns'].items():
            if c not in got['cols']:
                if how[0] != 'new' and how[1] in old['cols'] and \
                        old['rows']:
                    # a column that the evolved models keep is gone, and
                    # the values it held with it
                    out.append(('surviving-column-lost-with-its-values',
                                '%s.%s' % (table, c)))
                continue
            ci = got['cols'].index(c)
            for k, row in gk.items():
                val = row[ci]
                if how[0] == 'new':
                    want = how[1]
                    if not _same(val, want):
                        out.append(('new-column-initial',
                                    '%s.%s got %r want %r' % (table, c, val,
                                                              want)))
                        break
                else:
                    oc = how[1]
                    if oc not in old['cols']:
                        break
                    oval = ok_[k][old['cols'].index(oc)]
                    if how[0] == 'fill' and oval[0] is None:
                        if not _same(val, how[2]):
                            out.append(('null-fill',
                                        '%s.%s got %r want %r' % (
                                            table, c, val, how[2])))
                            break
                    elif val != oval:
                        role = 'renamed' if (oc != c or src != table) \
                            else 'surviving'
                        out.append(('value-changed:%s' % role,
                                    '%s.%s %r -> %r' % (table, c, oval,
                                                        val)))
                        break
    return out


def _same(val, want):
    if want[1] == 'any':
        return val[0] is not None and \
            str(val[0]).rstrip('0').rstrip('.') == \
            str(want[0]).rstrip('0').rstrip('.') or str(val[0]) == \
            str(want[0])
    if tuple(val) == tuple(want):
        return True
    # the sqlite3 converters of Django hand back date/time objects
    return val[1] == want[1] and str(val[0]) == str(want[0])
