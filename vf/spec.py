"""Spec language: plain JSON-able descriptions of projects, apps, models,
fields and Meta options.  The reference model of every check is expressed in
this language; `materialize` turns a spec into real Django model classes.

project := {'apps': [app, ...]}
app     := {'label': str, 'models': [model, ...]}
model   := {'name': str, 'fields': [field, ...], 'meta': {...}}
field   := {'name': str, 'type': <FIELD_TYPES key>, 'attrs': {...}}
           attrs: null, unique, db_index, db_column, max_length, max_digits,
                  decimal_places, primary_key, to ('app.Model'), db_table
meta    := unique_together [[f, ...], ...], index_together [[f, ...], ...],
           indexes [{'fields': [...], 'name': str?, 'condition': q?}, ...],
           constraints [{'type': 'check', 'name', 'check': q} |
                        {'type': 'unique', 'name', 'fields': [...],
                         'condition': q?}],
           db_table str
q       := [[lookup, value], ...]   (AND of simple lookups)
"""
import copy
import json

FIELD_TYPES = {
    'Char': 'CharField',
    'Text': 'TextField',
    'Int': 'IntegerField',
    'BigInt': 'BigIntegerField',
    'PosInt': 'PositiveIntegerField',
    'Bool': 'BooleanField',
    'Decimal': 'DecimalField',
    'DateTime': 'DateTimeField',
    'FK': 'ForeignKey',
    'O2O': 'OneToOneField',
    'M2M': 'ManyToManyField',
    'Auto': 'AutoField',
}
RELATION_TYPES = ('FK', 'O2O', 'M2M')


def canon(obj):
    return json.dumps(obj, sort_keys=True, separators=(',', ':'))


def canon_unordered(project):
    """Canonical form that ignores the order of apps, models and fields
    (neither signatures nor the schema oracle depend on it)."""
    p = copy.deepcopy(project)
    for a in p['apps']:
        for m in a['models']:
            m['fields'] = sorted(m['fields'], key=lambda f: f['name'])
        a['models'] = sorted(a['models'], key=lambda m: m['name'])
    p['apps'] = sorted(p['apps'], key=lambda a: a['label'])
    return canon(p)


def clone(obj):
    return copy.deepcopy(obj)


def field_class(short):
    from django.db import models
    return getattr(models, FIELD_TYPES[short])


def field_short(cls):
    name = cls.__name__
    for k, v in FIELD_TYPES.items():
        if v == name:
            return k
    raise KeyError(name)


def make_q(q):
    """[[lookup, value], ...] -> Q; a value {'set': [...]} stands for a
    Python set (JSON has none)."""
    from django.db.models import Q

    def val(v):
        if isinstance(v, dict) and 'set' in v:
            return set(v['set'])
        return v
    return Q(**{k: val(v) for k, v in q})


def F(name, ftype, **attrs):
    return {'name': name, 'type': ftype, 'attrs': attrs}


def M(name, fields, **meta):
    return {'name': name, 'fields': list(fields), 'meta': meta}


def A(label, models):
    return {'label': label, 'models': list(models)}


def P(*apps):
    return {'apps': list(apps)}


# ---------------------------------------------------------------- lookups

def get_app(spec, label):
    for a in spec['apps']:
        if a['label'] == label:
            return a
    return None


def get_model(spec, label, name):
    a = get_app(spec, label)
    if a is None:
        return None
    for m in a['models']:
        if m['name'] == name:
            return m
    return None


def get_field(model, name):
    for f in model['fields']:
        if f['name'] == name:
            return f
    return None


def iter_models(spec):
    for a in spec['apps']:
        for m in a['models']:
            yield a['label'], m


def default_table(label, model_name):
    return '%s_%s' % (label, model_name.lower())


def table_name(label, model):
    return model['meta'].get('db_table') or default_table(label, model['name'])


def column_name(field):
    col = field['attrs'].get('db_column')
    if col:
        return col
    if field['type'] in ('FK', 'O2O'):
        return field['name'] + '_id'
    return field['name']


def m2m_table(label, model, field):
    return field['attrs'].get('db_table') or '%s_%s' % (
        table_name(label, model), field['name'])


def pk_field(model):
    for f in model['fields']:
        if f['attrs'].get('primary_key'):
            return f
    return {'name': 'id', 'type': 'Auto', 'attrs': {'primary_key': True}}


def meta_field_refs(model):
    """Field names referenced by Meta options, keyed by option."""
    refs = {}
    meta = model['meta']
    for key in ('unique_together', 'index_together'):
        for entry in meta.get(key, []):
            for n in entry:
                refs.setdefault(n, set()).add(key)
    for idx in meta.get('indexes', []):
        for n in idx.get('fields', []):
            refs.setdefault(n.lstrip('-'), set()).add('indexes')
        for k, _ in idx.get('condition') or []:
            refs.setdefault(k.split('__')[0], set()).add('indexes')
    for c in meta.get('constraints', []):
        for n in c.get('fields', []):
            refs.setdefault(n, set()).add('constraints')
        for k, _ in (c.get('check') or []) + (c.get('condition') or []):
            refs.setdefault(k.split('__')[0], set()).add('constraints')
    return refs


def relations_to(spec, label, name):
    """(app_label, model, field) triples of relation fields pointing at
    label.name."""
    target = '%s.%s' % (label, name)
    out = []
    for al, m in iter_models(spec):
        for f in m['fields']:
            if f['type'] in RELATION_TYPES and f['attrs'].get('to') == target:
                out.append((al, m, f))
    return out
