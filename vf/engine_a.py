"""Engine A: mutation-sequence state space over real databases.

A node is (reference spec, real database image, implementation-simulated
signature[, reference rows]).  A transition applies one alphabet mutation
enabled in the reference spec through driver D1 (bare AppMutator with a
DatabaseState scanned from the real database)."""
import json

from vf import spec as S, mutlang as ML, observe as O, bootstrap as B
from vf import refstate as R, drivers as D, alphabet as AL, rows as RW


class Node(object):
    __slots__ = ('spec', 'image', 'sig', 'path', 'rows', 'depth')

    def __init__(self, spec, image, sig, path, rows=None):
        self.spec = spec
        self.image = image
        self.sig = sig
        self.path = path
        self.rows = rows
        self.depth = len(path)


def start_node(project, row_profile=None):
    ent = R.fresh(project)
    B.restore(ent['image'], 'default')
    rows = None
    if row_profile:
        rows = RW.populate(project, row_profile, 'default')
    return Node(project, B.snapshot('default'), ent['sig'], [], rows)


def node_key(node, with_rows=False):
    B_key = [S.canon(node.spec)]
    return B_key


def index_owner(project, table, entry):
    """Which reference-model feature owns index `entry` of `table`."""
    cols = tuple(c for c, _d in entry[0])
    desc = tuple(d for _c, d in entry[0])
    unique = entry[1]
    pred = entry[2]
    for label, m in S.iter_models(project):
        for f in m['fields']:
            if f['type'] == 'M2M' and S.m2m_table(label, m, f) == table:
                return 'm2m-table'
        if S.table_name(label, m) != table:
            continue
        colmap = {f['name']: S.column_name(f) for f in m['fields']
                  if f['type'] != 'M2M'}
        colmap.setdefault('id', 'id')
        def cols_of(names):
            return tuple(colmap.get(n.lstrip('-'), '?') for n in names)
        if pred is None:
            for e in m['meta'].get('unique_together', []):
                if unique and cols_of(e) == cols:
                    return 'unique_together'
            for e in m['meta'].get('index_together', []):
                if not unique and cols_of(e) == cols:
                    return 'index_together'
        for i in m['meta'].get('indexes', []):
            if not unique and cols_of(i['fields']) == cols and \
                    bool(i.get('condition')) == (pred is not None):
                return 'Meta.indexes' + ('(partial)' if pred else '')
        for c in m['meta'].get('constraints', []):
            if c['type'] == 'unique' and unique and \
                    cols_of(c['fields']) == cols and \
                    bool(c.get('condition')) == (pred is not None):
                return 'UniqueConstraint' + ('(partial)' if pred else '')
        if len(cols) == 1 and pred is None:
            for f in m['fields']:
                if f['type'] == 'M2M' or S.column_name(f) != cols[0]:
                    continue
                if unique and (f['attrs'].get('unique') or f['type'] == 'O2O'):
                    return 'field.unique'
                if not unique and f['type'] in ('FK',):
                    return 'fk-index'
                if not unique and f['attrs'].get('db_index'):
                    return 'field.db_index'
        return 'unowned'
    return 'unowned-table'


def check_owner(project, table, text):
    for label, m in S.iter_models(project):
        if S.table_name(label, m) != table:
            continue
        for c in m['meta'].get('constraints', []):
            if c['type'] == 'check':
                col = c['check'][0][0].split('__')[0]
                if '"%s"' % col in text:
                    return 'CheckConstraint'
        return 'column-check'
    return 'unowned'


def schema_discrepancies(evolved, fresh, spec_before, spec_after):
    """Typed list of differences between the evolved schema dump and the
    freshly created one."""
    out = []
    for t in sorted(set(evolved) | set(fresh)):
        if t not in evolved:
            own = 'm2m-table' if index_owner(spec_after, t, ((), 0, None)) \
                == 'm2m-table' else 'model-table'
            out.append(('table-missing', own, t))
            continue
        if t not in fresh:
            own = 'm2m-table' if index_owner(spec_before, t, ((), 0, None)) \
                == 'm2m-table' else 'model-table'
            out.append(('table-extra', own, t))
            continue
        e, f = evolved[t], fresh[t]
        ecols = {c[0]: c for c in e['columns']}
        fcols = {c[0]: c for c in f['columns']}
        for c in sorted(set(ecols) | set(fcols)):
            if c not in ecols:
                out.append(('column-missing', '', '%s.%s' % (t, c)))
            elif c not in fcols:
                out.append(('column-extra', '', '%s.%s' % (t, c)))
            else:
                a, b = ecols[c], fcols[c]
                if a[1] != b[1]:
                    out.append(('column-type', '%s->%s' % (b[1].split('(')[0],
                                                            a[1].split('(')[0]),
                                '%s.%s %s vs %s' % (t, c, a[1], b[1])))
                if a[2] != b[2]:
                    out.append(('column-null', 'notnull=%d' % a[2],
                                '%s.%s' % (t, c)))
                if a[3] != b[3]:
                    out.append(('column-pk', '', '%s.%s' % (t, c)))
        ei = list(e['indexes'])
        fi = list(f['indexes'])
        for x in list(fi):
            if x in ei:
                ei.remove(x)
                fi.remove(x)
        for x in fi:
            out.append(('index-missing', index_owner(spec_after, t, x),
                        '%s %r' % (t, x)))
        for x in ei:
            own = index_owner(spec_before, t, x)
            if own.startswith('unowned'):
                own = index_owner(spec_after, t, x)
            out.append(('index-extra', own, '%s %r' % (t, x)))
        ec, fc = list(e['checks']), list(f['checks'])
        for x in list(fc):
            if x in ec:
                ec.remove(x)
                fc.remove(x)
        for x in fc:
            out.append(('check-missing', check_owner(spec_after, t, x),
                        '%s %s' % (t, x)))
        for x in ec:
            out.append(('check-extra', check_owner(spec_before, t, x),
                        '%s %s' % (t, x)))
        if e['fks'] != f['fks']:
            out.append(('fk-differs', '', '%s %r vs %r' % (t, e['fks'],
                                                          f['fks'])))
    return out


def step_shape(step, statements):
    """Abstract trigger of a transition."""
    label, mj = step
    kind = mj[0]
    if D.rebuilds(statements):
        sql_shape = 'rebuild'
    elif statements:
        sql_shape = 'in-place'
    else:
        sql_shape = 'no-sql'
    if kind == 'ChangeField':
        detail = '+'.join(sorted(mj[3])) + ('+type' if mj[5] else '')
    elif kind == 'ChangeMeta':
        detail = mj[2]
    elif kind == 'AddField':
        detail = mj[3]
    elif kind == 'RenameField':
        detail = '+'.join(sorted(k for k, v in (mj[4] or {}).items() if v))
    else:
        detail = ''
    return kind, detail, sql_shape


def related_tables(project, step):
    """Tables of models the step names or relates to (before and after
    names), per the reference model."""
    label, mj = step
    kind = mj[0]
    named = set()
    if kind in ('DeleteApplication', 'RenameAppLabel', 'SQLBarrier'):
        app = S.get_app(project, label)
        named = set(m['name'] for m in (app['models'] if app else []))
    else:
        named = {mj[1]}
        if kind == 'RenameModel':
            named.add(mj[2])
    tables = set()
    models = set()
    for name in named:
        m = S.get_model(project, label, name)
        if m is None:
            continue
        models.add((label, name))
        for f in m['fields']:
            if f['type'] in S.RELATION_TYPES:
                al, mn = f['attrs']['to'].split('.')
                models.add((al, mn))
        for al, om, f in S.relations_to(project, label, name):
            models.add((al, om['name']))
    for al, mn in models:
        m = S.get_model(project, al, mn)
        if m is None:
            continue
        tables.add(S.table_name(al, m))
        for f in m['fields']:
            if f['type'] == 'M2M':
                tables.add(S.m2m_table(al, m, f))
    return tables


class Transition(object):
    """Outcome of executing one step from a node."""

    def __init__(self):
        self.status = None      # ok | refused | crash | sql-error
        self.res = None
        self.spec_after = None
        self.schema = None
        self.schema_named = None
        self.discrepancies = []
        self.fk_violations = []
        self.touched_unrelated = []
        self.child = None
        self.gate_diff = None
        self.row_issues = []
        self.pre_rows = None
        self.post_rows = None


def execute(node, step, check_rows=False, check_unrelated=True):
    """Run one transition on the real implementation and observe."""
    label, mj = step
    tr = Transition()
    tr.spec_after = ML.apply(node.spec, label, mj)
    ent = R.fresh(tr.spec_after, want_image=False)
    B.restore(node.image, 'default')
    B.reset_globals()
    related = related_tables(node.spec, step) | \
        related_tables(tr.spec_after, step)
    pre_raw = {}
    if check_unrelated:
        for t in O.list_tables('default'):
            if t not in related:
                pre_raw[t] = O.raw_table_image(t, 'default')
    if check_rows:
        tr.pre_rows = O.row_dump('default')
    D.LEGACY_LABELS.clear()
    for app in node.spec['apps']:
        if app.get('package'):
            D.LEGACY_LABELS[app['label']] = app['package']
    try:
        res = D.d1(R.load_sig(node.sig), [step])
    finally:
        D.LEGACY_LABELS.clear()
    tr.res = res
    if not res.ok:
        if res.exc_type in D.REFUSALS and res.stage == 'generate':
            tr.status = 'refused'
        elif res.stage == 'generate':
            tr.status = 'crash'
        else:
            tr.status = 'sql-error'
        return tr
    ok, diffs = R.sig_equal(res.sig, R.load_sig(ent['sig']),
                            ignore_upgrade_method=True)
    if not ok:
        # the signature the implementation simulates is not the documented
        # effect of the mutation.  That alone violates none of the
        # properties (evolve would refuse such an evolution), so it is only
        # counted and listed in the evidence - but the transition is judged
        # like any other (the database is compared with the
        # reference-evolved models) and its children continue from the
        # implementation's signature, so that whatever follows from the
        # wrong signature (a rebuild that loses a column, ...) is seen
        tr.gate_diff = diffs
    tr.status = 'ok'
    tr.schema = O.schema_dump('default')
    tr.discrepancies = schema_discrepancies(tr.schema, ent['schema'],
                                            node.spec, tr.spec_after)
    tr.fk_violations = O.fk_check('default')
    if check_unrelated:
        for t, img in pre_raw.items():
            try:
                now = O.raw_table_image(t, 'default')
            except Exception:
                now = None
            if now != img:
                tr.touched_unrelated.append(t)
    if check_rows:
        tr.post_rows = O.row_dump('default')
    tr.schema_named = O.schema_dump('default', names=True)
    tr.child = Node(tr.spec_after, B.snapshot('default'),
                    res.sig.serialize(), node.path + [step], None)
    return tr


def jsonable(x):
    return json.loads(json.dumps(x, default=str))


def bfs(start_project, depth, judge, level='full', kinds=None,
        row_profile=None, check_rows=False, max_transitions=None,
        alphabet_opts=None, first_steps=None):
    """Breadth-first search from `start_project` up to `depth` transitions.

    judge(node, step, tr) -> list of (fingerprint, detail) for violations.
    A child is expanded only if its transition produced no violation and was
    accepted (status ok).  Returns a stats dict."""
    stats = {'states': 0, 'transitions': 0, 'validated': 0, 'refused': 0,
             'gate': 0, 'violating_transitions': 0, 'dedup_hits': 0,
             'by_kind': {}, 'statuses': {}, 'rebuild_transitions': 0,
             'capped': False, 'samples': [], 'gate_samples': [],
             'refused_samples': [], 'max_depth': 0}
    violations = {}
    root = start_node(start_project, row_profile)
    seen = {S.canon(start_project) + '|' +
            S.canon(jsonable(R.fresh(start_project)['schema_named']))}
    stats['states'] = 1
    frontier = [root]
    opts = dict(alphabet_opts or {})
    for d in range(depth):
        nxt = []
        for node in frontier:
            deleted = []
            for _l, mj in node.path:
                if mj[0] in ('DeleteField', 'RenameField'):
                    deleted.append(mj[2])
            steps = AL.enabled(node.spec, level=level, kinds=kinds,
                               reuse_names=tuple(deleted), **opts)
            if d == 0 and first_steps is not None:
                steps = [s for s in steps if S.canon(s) in first_steps]
            for step in steps:
                if max_transitions and \
                        stats['transitions'] >= max_transitions:
                    stats['capped'] = True
                    break
                tr = execute(node, step, check_rows=check_rows)
                stats['transitions'] += 1
                stats['statuses'][tr.status] = \
                    stats['statuses'].get(tr.status, 0) + 1
                k = step[1][0]
                stats['by_kind'][k] = stats['by_kind'].get(k, 0) + 1
                if tr.status in ('ok', 'crash', 'sql-error'):
                    stats['validated'] += 1
                if tr.status == 'refused':
                    stats['refused'] += 1
                    if len(stats['refused_samples']) < 3:
                        stats['refused_samples'].append(
                            {'step': step, 'error': str(tr.res.exc)[:200]})
                if tr.gate_diff:
                    stats['gate'] += 1
                    if len(stats['gate_samples']) < 5:
                        stats['gate_samples'].append(
                            {'path': node.path + [step],
                             'diff': tr.gate_diff})
                if tr.res is not None and D.rebuilds(tr.res.statements):
                    stats['rebuild_transitions'] += 1
                found = judge(node, step, tr)
                if found:
                    stats['violating_transitions'] += 1
                    for fp, detail in found:
                        replay = {'start': start_project,
                                  'rows': row_profile,
                                  'steps': node.path + [step]}
                        ent = violations.get(fp)
                        size = len(S.canon(replay))
                        if ent is None:
                            violations[fp] = {'count': 1, 'exemplar': replay,
                                              'detail': detail, 'size': size}
                        else:
                            ent['count'] += 1
                            if size < ent['size']:
                                ent.update(exemplar=replay, detail=detail,
                                           size=size)
                    continue
                if tr.status != 'ok':
                    continue
                if len(stats['samples']) < 2:
                    stats['samples'].append({'start': start_project,
                                             'steps': node.path + [step]})
                key = S.canon(tr.spec_after) + '|' + \
                    S.canon(jsonable(tr.schema_named))
                if check_rows:
                    key += '|' + S.canon(jsonable(tr.post_rows))
                if tr.gate_diff:
                    key += '|sig:' + S.canon(jsonable(tr.gate_diff))
                if key in seen:
                    stats['dedup_hits'] += 1
                    continue
                seen.add(key)
                stats['states'] += 1
                stats['max_depth'] = max(stats['max_depth'], d + 1)
                if d + 1 < depth:
                    nxt.append(tr.child)
        frontier = nxt
    return stats, violations
