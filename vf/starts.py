"""Start families S1/S2/S3 (complete products of the stated menus)."""
from vf.spec import F, M, A, P

MM = [
    ('none', {}),
    ('ut', {'unique_together': [['a', 'b']]}),
    ('it', {'index_together': [['a', 'b']]}),
    ('idx', {'indexes': [{'fields': ['a']}]}),
    ('idx2', {'indexes': [{'fields': ['a', '-b'], 'name': 'idx_ab'}]}),
    ('idxp', {'indexes': [{'fields': ['a'], 'name': 'idx_p',
                           'condition': [['b__gt', 0]]}]}),
    ('ck', {'constraints': [{'type': 'check', 'name': 'ck_b',
                             'check': [['b__gte', 0]]}]}),
    ('uc', {'constraints': [{'type': 'unique', 'name': 'uc_ab',
                             'fields': ['a', 'b']}]}),
    ('ucp', {'constraints': [{'type': 'unique', 'name': 'uc_p',
                              'fields': ['a'],
                              'condition': [['b__gt', 0]]}]}),
    ('tbl', {'db_table': 'custom_tbl'}),
]

FIELDSETS = {
    'V1': [F('a', 'Char', max_length=20), F('b', 'Int'),
           F('c', 'Int', null=True)],
    'V2': [F('a', 'Char', max_length=20, unique=True),
           F('b', 'Int', db_index=True),
           F('c', 'Char', max_length=20, null=True)],
    'V3': [F('a', 'Char', max_length=20),
           F('b', 'Int', db_column='custom_col'),
           F('d', 'Decimal', max_digits=5, decimal_places=2, null=True),
           F('e', 'DateTime', null=True), F('t', 'Text', null=True),
           F('p', 'PosInt', null=True), F('g', 'BigInt', null=True),
           F('f', 'Bool')],
}


def s1(fieldsets=('V1', 'V2', 'V3'), metas=None):
    out = []
    for fs in fieldsets:
        for mname, meta in MM:
            if metas is not None and mname not in metas:
                continue
            import copy
            out.append(('S1-%s-%s' % (fs, mname),
                        P(A('va', [M('Item', copy.deepcopy(FIELDSETS[fs]),
                                     **copy.deepcopy(meta))]))))
    return out


def s2():
    out = []
    out.append(('S2a', P(A('va', [
        M('Author', [F('name', 'Char', max_length=20)]),
        M('Book', [F('title', 'Char', max_length=20),
                   F('author', 'FK', to='va.Author')])]))))
    out.append(('S2b', P(A('va', [
        M('Author', [F('name', 'Char', max_length=20)]),
        M('Book', [F('title', 'Char', max_length=20),
                   F('author', 'FK', to='va.Author', null=True),
                   F('reviewers', 'M2M', to='va.Author',
                     related_name='+')])]))))
    # the same with project-specific field classes (subclasses of the
    # relation and character fields)
    g = P(A('va', [
        M('Author', [F('name', 'Char', max_length=20)]),
        M('Book', [F('title', 'Char', max_length=20),
                   F('author', 'FK', to='va.Author', null=True),
                   F('reviewers', 'M2M', to='va.Author',
                     related_name='+')])]))
    for f in g['apps'][0]['models'][1]['fields']:
        f['sub'] = True
    out.append(('S2g', g))
    out.append(('S2c', P(A('va', [
        M('Book', [F('title', 'Char', max_length=20)]),
        M('BookNote', [F('book', 'O2O', to='va.Book', null=True),
                       F('text', 'Text', null=True)])]))))
    out.append(('S2d', P(A('va', [
        M('Node', [F('name', 'Char', max_length=20),
                   F('parent', 'FK', to='va.Node', null=True)])]))))
    out.append(('S2e', P(A('va', [
        M('Author', [F('name', 'Char', max_length=20)]),
        M('Book', [F('title', 'Char', max_length=20),
                   F('authors', 'M2M', to='va.Author', db_table='custom_m2m')],
          unique_together=[['title', 'id']])]))))
    out.append(('S2f', P(A('va', [
        M('Author', [F('code', 'Int', primary_key=True),
                     F('name', 'Char', max_length=20)]),
        M('Book', [F('title', 'Char', max_length=20),
                   F('author', 'FK', to='va.Author')]),
        M('Shelf', [F('label', 'Char', max_length=20, db_index=True)],
          db_table='va_book_extra')]))))
    return out


def s3():
    out = []
    out.append(('S3a', P(
        A('va', [M('Author', [F('name', 'Char', max_length=20)])]),
        A('vab', [M('Book', [F('title', 'Char', max_length=20),
                             F('author', 'FK', to='va.Author')])]))))
    out.append(('S3b', P(
        A('va', [M('Author', [F('name', 'Char', max_length=20)]),
                 M('Review', [F('book', 'FK', to='vab.Book', null=True),
                              F('stars', 'Int')])]),
        A('vab', [M('Book', [F('title', 'Char', max_length=20),
                             F('authors', 'M2M', to='va.Author')])]))))
    return out
