"""Process bootstrap: configure Django with in-memory SQLite databases and
import django_evolution from the repository working tree ($VERIF_REPO,
default /repo)."""
import os
import sys

REPO = os.environ.get('VERIF_REPO', '/repo')
VERIF = os.path.dirname(os.path.dirname(os.path.abspath(__file__)))

# Harness-controlled routing table: (app_label, model_name_lower) -> alias.
ROUTE = {}
ROUTE_FALLBACK = [None]
_done = False


class HarnessRouter(object):
    """Router whose table the harness mutates (C16).  Models not in ROUTE
    have no opinion (allowed everywhere, written to 'default')."""

    def _alias(self, app_label, model_name):
        if model_name is None:
            return None
        return ROUTE.get((app_label, model_name.lower()))

    def db_for_read(self, model, **hints):
        # ROUTE_FALLBACK[0] = 'default' models the common "whatever I do
        # not manage goes to default" router (an opinion on foreign models,
        # django_evolution's own included)
        return self._alias(model._meta.app_label,
                           model._meta.model_name) or ROUTE_FALLBACK[0]

    db_for_write = db_for_read

    def allow_relation(self, obj1, obj2, **hints):
        return True

    def allow_migrate(self, db, app_label, model_name=None, **hints):
        if model_name is None and 'model' in hints:
            model_name = hints['model']._meta.model_name
        alias = self._alias(app_label, model_name)
        if alias is None:
            return None
        return alias == db


def setup(extra_apps=()):
    global _done
    if _done:
        return
    _done = True
    if REPO not in sys.path:
        sys.path.insert(0, REPO)
    if VERIF not in sys.path:
        sys.path.insert(0, VERIF)
    os.environ['DJANGO_EVOLUTION_VERIF'] = '1'
    from django.conf import settings
    dbs = {}
    for alias in ('default', 'other', 'ref'):
        dbs[alias] = {'ENGINE': 'django.db.backends.sqlite3',
                      'NAME': ':memory:'}
    settings.configure(
        DEBUG=False,
        SECRET_KEY='verif',
        USE_TZ=True,
        DATABASES=dbs,
        INSTALLED_APPS=['django.contrib.contenttypes',
                        'django_evolution'] + list(extra_apps),
        DATABASE_ROUTERS=['vf.bootstrap.HarnessRouter'],
        DEFAULT_AUTO_FIELD='django.db.models.AutoField',
        LOGGING_CONFIG=None,
    )
    import logging
    logging.disable(logging.CRITICAL)
    from django_evolution.compat.patches import apply_patches
    apply_patches()
    import django
    django.setup()
    import django_evolution
    assert os.path.realpath(django_evolution.__file__).startswith(
        os.path.realpath(REPO)), django_evolution.__file__


def fresh_db(alias='default'):
    """Drop the in-memory database behind `alias` and reconnect."""
    from django.db import connections
    conn = connections[alias]
    if conn.connection is not None:
        try:
            conn.connection.close()
        except Exception:
            pass
        conn.connection = None
    # Django keeps per-connection state that must be reset as well.
    conn.in_atomic_block = False
    conn.savepoint_ids = []
    conn.needs_rollback = False
    conn.atomic_blocks = []
    conn.commit_on_exit = True
    conn.run_on_commit = []
    conn.closed_in_transaction = False
    conn.ensure_connection()
    return conn


def snapshot(alias='default'):
    from django.db import connections
    conn = connections[alias]
    conn.ensure_connection()
    try:
        return conn.connection.serialize()
    except Exception:
        # a database without any page (nothing ever created) has no image
        return b''


def restore(image, alias='default'):
    conn = fresh_db(alias)
    if image:
        conn.connection.deserialize(image)
    return conn


def reset_globals():
    """Reset process-global state of django_evolution between executions."""
    from django_evolution.utils import migrations as um
    from django_evolution.utils import models as umod
    from django_evolution import management
    um._global_custom_migrations = None
    umod._rel_tree_cache = None
    management._evolve_lock = 0
    management._django_evolution_app = None
