"""Engine B: upgrade-run history space.

A *history* is a start project V0 plus a list of project-level steps
(app label, evolution label, [mutations]); version V_j is the project after
the first j steps, and the app's evolutions package at V_j lists exactly the
labels of its steps among the first j (discovered the normal way through
<app>.evolutions.SEQUENCE / MUTATIONS)."""
import copy

from vf import spec as S, mutlang as ML, observe as O, bootstrap as B
from vf import materialize as MZ, drivers as D, rows as RW

SKIP_TABLES = O.BOOKKEEPING_TABLES + ('django_content_type',)


class History(object):
    def __init__(self, v0, steps, deps=None, sql_files=None):
        self.v0 = v0
        self.steps = steps          # [(label, elabel, [mj, ...]), ...]
        self.deps = deps or {}      # {(label, elabel): {attr: value}}
        # {(label, elabel): {file name: text}}: the evolution is shipped as
        # SQL file(s) instead of a Python module (its step has no mutations)
        self.sql_files = dict(sql_files or {})
        for label, elabel, mjs in steps:
            # ['SQLFile', {file name: text}] as the only "mutation" of a
            # step is the same thing written inside the step list
            if len(mjs) == 1 and mjs[0][0] == 'SQLFile':
                self.sql_files[(label, elabel)] = dict(mjs[0][1])
        self.specs = [v0]
        cur = v0
        for label, elabel, mjs in steps:
            for mj in mjs:
                cur = ML.apply(cur, label, mj)
            self.specs.append(cur)
        self.n = len(steps)

    def labels(self):
        out = []
        for a in self.v0['apps']:
            out.append(a['label'])
        for sp in self.specs:
            for a in sp['apps']:
                if a['label'] not in out:
                    out.append(a['label'])
        return out

    def sequence(self, label, j):
        return [el for (l, el, _m) in self.steps[:j] if l == label]

    def install(self, j, all_apps_have_evolutions=True):
        """Install code version j."""
        spec = self.specs[j]
        evos = {}
        for app in spec['apps']:
            label = app['label']
            seq = self.sequence(label, j)
            mods = {}
            files = {}
            for (l, el, mjs) in self.steps[:j]:
                if l != label:
                    continue
                if (l, el) in self.sql_files:
                    files.update(self.sql_files[(l, el)])
                    continue
                body = {'MUTATIONS': [ML.to_real(mj) for mj in mjs]}
                body.update(self.deps.get((l, el), {}))
                mods[el] = body
            if seq or all_apps_have_evolutions:
                evos[label] = {'SEQUENCE': seq, 'modules': mods,
                               'top': self.deps.get((label, None), {})}
                if files:
                    evos[label]['sql_files'] = files
        return MZ.install(spec, evolutions=evos)

    def describe(self):
        d = {'v0': self.v0, 'steps': self.steps}
        if self.deps:
            d['deps'] = [[list(k), v] for k, v in sorted(
                self.deps.items(), key=lambda kv: str(kv[0]))]
        if self.sql_files:
            d['sql_files'] = [[list(k), v] for k, v in sorted(
                self.sql_files.items(), key=lambda kv: str(kv[0]))]
        return d


def deps_from_json(lst):
    """Inverse of the 'deps' entry of History.describe()."""
    out = {}
    for k, v in lst or []:
        out[tuple(k)] = {attr: [tuple(t) if isinstance(t, list) else t
                                for t in targets]
                         for attr, targets in v.items()}
    return out


def canonical_state(j=None, alias='default'):
    """Canonical key of the current database (+ code version)."""
    bk = O.bookkeeping_dump(alias)
    evs = sorted((a, l) for (a, l, _v) in (bk['evolutions'] or []))
    sig = None
    if bk['versions']:
        sig = bk['versions'][-1][1]
    return S.canon([j, jsonable(O.schema_dump(alias, names=True,
                                              skip=SKIP_TABLES)),
                    jsonable(O.row_dump(alias, skip=SKIP_TABLES)),
                    evs, sig, bk['migrations']])


def jsonable(x):
    import json
    return json.loads(json.dumps(x, default=str))


def final_observation():
    """What the convergence oracle compares."""
    from django_evolution.models import Version
    from django_evolution.signature import ProjectSignature
    bk = O.bookkeeping_dump('default')
    evs = [(a, l) for (a, l, _v) in (bk['evolutions'] or [])]
    return {
        'schema': O.schema_dump('default', skip=SKIP_TABLES),
        'rows': O.row_dump('default', skip=SKIP_TABLES),
        'evolutions': sorted(evs),
        'evolution_dups': len(evs) - len(set(evs)),
    }


def stored_vs_current():
    """Diff (both ways) between the stored signature and the signature of
    the current models."""
    from django_evolution.models import Version
    from django_evolution.signature import ProjectSignature
    from django_evolution.diff import Diff
    stored = Version.objects.current_version().signature.clone()
    cur = ProjectSignature.from_database('default')
    # an installed app without any model has an (empty) entry in the current
    # signature but none in the stored one: not a schema difference
    for sig in (stored, cur):
        for a in list(sig.app_sigs):
            if a.is_empty():
                sig.remove_app_sig(a.app_id)
    d1, d2 = Diff(stored, cur), Diff(cur, stored)
    ok = d1.is_empty(ignore_apps=False) and d2.is_empty(ignore_apps=False)
    return ok, (str(d1), str(d2))


def upgrade(driver, tracer=None, db='default'):
    B.reset_globals()
    if driver == 'D2':
        return D.d2_all(tracer=tracer, db=db)
    if driver == 'D3':
        return D.d3(tracer=tracer, db=db)
    if driver == 'D4':
        return D.d4(tracer=tracer, db=db)
    raise ValueError(driver)
