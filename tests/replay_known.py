#!/usr/bin/env python3
"""Replays every committed known-finding exemplar (replays/known/*.json)
through `./vcheck <ID> --replay <file>` without the explorer and reports
which still reproduce.  A `known` finding whose exemplar no longer reproduces
should be reviewed (the defect may have been repaired).

usage: tests/replay_known.py [ID ...]"""
import json
import os
import subprocess
import sys

root = os.path.dirname(os.path.dirname(os.path.abspath(__file__)))
doc = json.load(open(os.path.join(root, 'known_findings.json')))
want = set(sys.argv[1:])
bad = 0
for f in doc['findings']:
    if want and f['property'] not in want:
        continue
    for ex in f.get('exemplar_replays', []):
        path = os.path.join(root, ex)
        if not os.path.exists(path):
            print('MISSING  %s %s' % (f['id'], ex))
            bad += 1
            continue
        p = subprocess.run([os.path.join(root, 'vcheck'), f['property'],
                            '--replay', path], capture_output=True,
                           text=True, cwd=root)
        ok = 'REPRODUCED' in p.stdout and 'NOT-REPRODUCED' not in p.stdout
        status = f.get('status', 'known')
        print('%-9s %s %s [%s]' % ('ok' if ok else 'STALE', f['id'], ex,
                                   status))
        if status == 'known' and not ok:
            bad += 1
sys.exit(1 if bad else 0)
